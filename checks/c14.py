"""C14 - ADB streams: per-stream in-order exactly-once delivery, acks, flow control."""
import threading

from simkit import core
from simkit import env

PROPERTY = 'C14'
LEVEL = 'exploration'
TECHNIQUE = ('deterministic simulation of the real AdbConnection / AdbStream stack against a scripted device peer: '
             '1-3 streams, device-side interleaving, delays and remote closes from the tape, host reader / writer threads '
             'under seeded line-level schedules; per-stream byte equality, ack / flow-control audit at the peer, bounded '
             'liveness and deadlock detection')
LEVEL_TEXT = ('seeded exploration: a simulated adbd thread (audits every packet it receives) serves 1-3 streams with '
              'bounded payload scripts, choosing the interleaving of its OKAY/WRTE/CLSE messages, ack delays, pauses and '
              'remote closes from the tape; per stream a host reader thread (read / read(length) / read_until_close / '
              'streaming_command) and optionally a writer thread share the connection under line-level pre-emption of '
              'adb_protocol / adb_message. Oracle: per stream the concatenation of reads equals the bytes the device '
              'wrote (a prefix when the host closed early); the peer saw exactly one OKAY(local, remote) per WRTE it sent, '
              'host WRTE chunks <= maxdata, never a second host WRTE before the first was acknowledged, exactly one CLSE '
              'per closed stream, host data arrives complete and in order; every blocking call returns or raises within its '
              'timeout + poll slack and (the peer never stalls longer than the timeouts) never times out; the deadlock '
              'detector stays silent. The preemption-bounded exhaustive clause is not claimed.')
LEVEL_NOTE = 'trusted: simkit, the device peer (workloads/wadb.py), reliable in-order chunk transport'
DESIGN_REF = 'DESIGN.md section 4, C14'
RULE = ('one run = stream scripts + device knobs + host thread plans + schedule; non-trivial = >= 2 host threads shared '
        'the connection or a device-side fault (refused open, remote close, delayed ack) fired; distinct = distinct '
        'event-log digests')
ASSUMPTIONS = ['the USB transport delivers whole chunks reliably and in order',
               'the device acknowledges host WRTEs and waits for an OKAY before its next WRTE on a stream (as adbd does)']
COMPONENTS = {
    'real': ['openhtf.plugs.usb.adb_protocol (AdbConnection, AdbStream, AdbStreamTransport)',
             'openhtf.plugs.usb.adb_message', 'openhtf.util.timeouts', 'queue.Queue, threading.Condition (CPython)'],
    'simulated': ['device (scripted adbd thread)', 'USB transport', 'locks, scheduling, clock'],
    'stub': ['libusb1 / usb1 / M2Crypto import-only stubs'],
}
WARMUP = 12
QUICK = {'budget_s': 40}
THOROUGH = {'budget_s': 480}
EXPECTED_PROBES = ['multi_stream', 'reader_and_writer_share_stream', 'remote_close_early',
                   'open_refused', 'host_closed_early', 'message_for_other_stream_queued']

_m = {}


def setup():
  env.import_openhtf()
  from workloads import wadb
  from openhtf.plugs.usb import adb_protocol
  _m.update(wadb=wadb, adb_protocol=adb_protocol)


def _payloads(tape, tag, n, maxdata):
  out = []
  for i in range(n):
    ln = tape.pick([1, 3, 10, maxdata, maxdata - 1], 'plen')
    out.append(''.join(chr(97 + (i + j + len(tag)) % 26) for j in range(ln)) if ln > 3 else '%s%d' % (tag[0], i % 10) * 1)
  return out


def run_one(tape):
  wadb = _m['wadb']
  env.hygiene()
  maxdata = tape.pick([16, 64, 256], 'maxdata')
  nstreams = 1 + tape.draw(3, 'nstreams')
  svcs = ['shell:s%d' % i for i in range(nstreams)]
  scripts = {}
  plans = {}
  refuse = set()
  close_after = {}
  for svc in svcs:
    scripts[svc] = _payloads(tape, svc[-2:], tape.draw(7, 'nchunks'), maxdata)
    p = {'timeout_ms': tape.pick([3000, 5000, 20000], 'timeout'),
         'mode': tape.weighted([(4, 'read'), (2, 'streaming'), (2, 'read_len')], 'mode'), 'writes': []}
    if p['mode'] == 'read_len':
      p['read_len'] = tape.pick([1, 2, 5], 'rlen')
    if p['mode'] != 'streaming' and tape.chance(400, 'writer'):
      nw = 1 + tape.draw(3, 'nwrites')
      p['writes'] = [''.join(chr(65 + (k + j) % 26) for j in range(tape.pick([1, maxdata, maxdata + 1, 3 * maxdata], 'wlen')))
                     for k in range(nw)]
    if p['mode'] == 'read' and tape.chance(120, 'hclose') and scripts[svc]:
      p['close_after_reads'] = 1 + tape.draw(len(scripts[svc]), 'hclose_n')
    if tape.chance(80, 'refuse'):
      refuse.add(svc)
    elif tape.chance(150, 'rclose') and scripts[svc]:
      close_after[svc] = tape.draw(len(scripts[svc]), 'rclose_n')
    plans[svc] = p
  # a stream on which one host thread writes while another polls it with timeout 0
  poll = None
  if tape.chance(250, 'poll_stream'):
    poll = {'svc': 'shell:poll', 'n': 2 + tape.draw(6, 'npolls'), 'pause': tape.pick([0.001, 0.02, 0.1], 'ppause'),
            'writes': [''.join(chr(97 + j % 26) for j in range(tape.pick([1, maxdata, 2 * maxdata + 1], 'pwlen')))
                       for _ in range(1 + tape.draw(2, 'npw'))], 'timeout_ms': 5000}
    scripts[poll['svc']] = []
  # fault: a transfer that completes only as the reading call's deadline passes (lone reader only: a late
  # transfer keeps the transport's reader lock, and other callers would time out legitimately)
  late_plan = None
  if (nstreams == 1 and poll is None and not plans[svcs[0]]['writes'] and plans[svcs[0]]['mode'] != 'streaming'
      and svcs[0] not in refuse and tape.chance(300, 'late_transfer')):
    late_plan = {}
    for _ in range(1 + tape.draw(2, 'n_late')):
      late_plan[tape.draw(len(scripts[svcs[0]]) + 2, 'late_call')] = tape.draw(2, 'late_hdr')
  knobs = core.Knobs(p_sync=tape.pick([0, 60, 200], 'p_sync'), gap_mean=tape.pick([0, 15, 40, 120], 'gap'),
                     hot_span=0, max_steps=1500000, max_time=400.0)
  viols = []
  probes = {}
  faults = {}
  out = {}
  dev = None
  with env.NoGC(25):
    sim = core.Sim(tape, env.TRACE_PREFIXES, knobs)
    sim.watch_calls = frozenset(['enqueue_message'])
    sim.begin()
    try:
      tr = wadb.FakeTransport(sim)
      expect = {}
      for svc in svcs:
        # number of WRTE packets the host will send (writes are split into maxdata chunks)
        n = sum((len(w) + maxdata - 1) // maxdata for w in plans[svc]['writes'])
        if n and svc not in close_after:
          expect[svc] = n
      if poll:
        expect[poll['svc']] = sum((len(w) + maxdata - 1) // maxdata for w in poll['writes'])
      if late_plan is not None:
        plans[svcs[0]]['late'] = (tr, late_plan)
      dev = wadb.Device(sim, tape, tr, {'maxdata': maxdata, 'scripts': scripts, 'refuse': refuse,
                                        'close_after': close_after, 'expect_host_writes': expect,
                                        'idle_rounds': 1500 if late_plan is not None else 400})
      dth = threading.Thread(target=wadb.device_thread, args=(dev, wadb.plain_handshake), name='device')
      dth.daemon = True
      dth.start()
      conn = _m['adb_protocol'].AdbConnection.connect(tr, timeout_ms=5000)
      if conn.maxdata != maxdata or conn.serial != 'SER123':
        viols.append({'clause': 'connection_attributes', 'details': {'maxdata': conn.maxdata, 'serial': conn.serial}})
      ths = []
      for svc in svcs:
        p = plans[svc]
        out[svc] = {'read': [], 'written': [], 'calls': [], 'end': None, 'wend': None}
        if p['mode'] == 'streaming':
          t = threading.Thread(target=wadb.streaming_reader, args=(sim, conn, svc, svc, p, out), name='host-' + svc)
          t.daemon = True
          ths.append(t)
        else:
          try:
            stream = wadb.timed(sim, out[svc]['calls'], 'open', p['timeout_ms'],
                                lambda: conn.open_stream(svc, p['timeout_ms']))
          except BaseException as e:  # pylint: disable=broad-except
            out[svc]['end'] = 'open_exc:' + type(e).__name__
            out[svc]['exc_msg'] = str(e)[:120]
            continue
          if stream is None:
            out[svc]['end'] = 'refused'
            continue
          t = threading.Thread(target=wadb.stream_reader, args=(sim, stream, svc, p, out), name='rd-' + svc)
          t.daemon = True
          ths.append(t)
          if p['writes']:
            t2 = threading.Thread(target=wadb.stream_writer, args=(sim, stream, svc, p, out), name='wr-' + svc)
            t2.daemon = True
            ths.append(t2)
      if poll:
        key = poll['svc']
        out[key] = {'read': [], 'written': [], 'calls': [], 'end': None, 'wend': None}
        try:
          pstream = conn.open_stream(key, 5000)
        except BaseException as e:  # pylint: disable=broad-except
          pstream = None
          out[key]['end'] = 'open_exc:' + type(e).__name__
        if pstream is not None:
          t = threading.Thread(target=wadb.stream_poller, args=(sim, pstream, key, poll['n'], poll['pause'], out), name='poll')
          t.daemon = True
          ths.append(t)
          t2 = threading.Thread(target=wadb.stream_writer, args=(sim, pstream, key, poll, out), name='wr-poll')
          t2.daemon = True
          ths.append(t2)
      for t in ths:
        t.start()
      # writers first: when they are done the device may close those streams
      for t in ths:
        t.join()
      dev.done = True
      dth.join(30.0)
    except core.SimAbort:
      pass
    except BaseException as e:  # pylint: disable=broad-except
      viols.append({'clause': 'host_main_exception', 'details': {'exc': type(e).__name__, 'msg': str(e)[:200]}})
    finally:
      failed = sim.failed
      failed_info = sim.failed_info
      sim.end()
  if failed in ('deadlock', 'hang'):
    viols.append({'clause': 'stuck_' + failed, 'details': {'info': (failed_info or '')[:300]}})
  elif dev is not None and failed is None:
    _oracle(dev, svcs, scripts, plans, refuse, close_after, out, maxdata, viols, probes, faults, sim)
    if tr.late_fired:
      faults['transfer_completes_at_deadline'] = tr.late_fired
      probes['late_transfer'] = 1
      if any(e[3] == 'late_timeout' for e in sim.log):
        probes['late_transfer_timed_out_call'] = 1
    if poll and out.get(poll['svc']):
      for (what, tmo, dur, res) in out[poll['svc']]['calls']:
        if what == 'poll':
          probes['zero_timeout_poll'] = 1
          if dur > 0.05:
            viols.append({'clause': 'zero_timeout_read_blocked', 'details': {'seconds': round(dur, 3), 'result': res}})
            break
  return {
      'violations': viols, 'digest': sim.digest(), 'sched': sim.sched_digest(),
      'nontrivial': len([1 for s in svcs if out.get(s)]) + sum(1 for s in svcs if plans[s]['writes']) >= 2 or bool(faults),
      'faults': faults, 'probes': probes, 'steps': sim.steps, 'switches': sim.switches,
      'preempts': sim.preemptions, 'sim_s': sim.now - core.T0,
      'sample': {'maxdata': maxdata, 'streams': {s: {'device_chunks': [len(c) for c in scripts[s]],
                                                     'mode': plans[s]['mode'], 'host_writes': [len(w) for w in plans[s]['writes']],
                                                     'end': (out.get(s) or {}).get('end')} for s in svcs},
                 'refuse': sorted(refuse), 'remote_close_after': close_after,
                 'events': [list(e[2:]) for e in sim.log if e[3] in ('d2h', 'host_read', 'host_wrote')][:30]},
      'abnormal': ('%s: %s' % (failed, failed_info)) if failed in ('steplimit', 'unwind') else None,
      'poison': bool(failed),
  }


def _oracle(dev, svcs, scripts, plans, refuse, close_after, out, maxdata, viols, probes, faults, sim):
  if len(svcs) > 1:
    probes['multi_stream'] = 1
  for v in dev.violations:
    viols.append({'clause': 'device_audit_' + str(v[0]), 'details': {'info': [str(x)[:40] for x in v[1:]]}})
  by_svc = {}
  for rid, st in dev.streams.items():
    by_svc[st['svc']] = (rid, st)
  for svc in svcs:
    res = out.get(svc)
    if res is None:
      continue
    p = plans[svc]
    if svc in refuse:
      probes['open_refused'] = 1
      faults['open_refused'] = faults.get('open_refused', 0) + 1
      if p['mode'] == 'streaming':
        # (no stream is what matters; when another thread demultiplexes the CLSE the opener may
        # see the stream closed before it sees the CLSE packet itself)
        if res['end'] not in ('exc:AdbStreamUnavailableError', 'exc:AdbStreamClosedError'):
          viols.append({'clause': 'refused_service_not_reported', 'details': {'end': res['end']}})
      elif res['end'] != 'refused':
        viols.append({'clause': 'refused_open_returned_stream', 'details': {'end': res['end']}})
      continue
    if svc not in by_svc:
      viols.append({'clause': 'stream_never_opened', 'details': {'svc': svc, 'end': res['end'], 'msg': res.get('exc_msg')}})
      continue
    rid, st = by_svc[svc]
    sent_chunks = scripts[svc][:st['sent']]
    sent = ''.join(sent_chunks)
    got = ''.join(res['read'])
    if svc in close_after:
      probes['remote_close_early'] = 1
      faults['remote_close_early'] = faults.get('remote_close_early', 0) + 1
    if p.get('close_after_reads'):
      probes['host_closed_early'] = 1
    if p['writes']:
      probes['reader_and_writer_share_stream'] = 1
    end = res['end'] or ''
    if end.startswith('exc:') or end.startswith('open_exc'):
      viols.append({'clause': 'host_read_raised', 'details': {'svc': svc, 'end': end, 'msg': res.get('exc_msg'),
                                                             'mode': p['mode']}})
      continue
    if end == 'host_closed':
      if not sent.startswith(got):
        viols.append({'clause': 'stream_bytes_not_a_prefix', 'details': {'svc': svc, 'got': got[:40], 'sent': sent[:40]}})
    else:
      if got != sent:
        kind = 'lost' if sent.startswith(got) else ('reordered_or_foreign' if sorted(got) != sorted(sent) or len(got) == len(sent)
                                                    else 'duplicated_or_foreign')
        viols.append({'clause': 'stream_bytes_differ', 'details': {
            'svc': svc, 'kind': kind, 'got_len': len(got), 'sent_len': len(sent), 'got': got[:48], 'sent': sent[:48],
            'mode': p['mode'], 'streams': len(svcs)}})
      if st['acks'] != st['sent']:
        viols.append({'clause': 'device_wrte_not_acked_exactly_once', 'details': {'svc': svc, 'sent': st['sent'],
                                                                                 'acks': st['acks']}})
    if p['mode'] == 'read_len' and any(len(d) > p['read_len'] for d in res['read']):
      viols.append({'clause': 'read_returned_more_than_requested', 'details': {'svc': svc}})
    # host -> device data
    if p['writes'] and svc not in close_after and not p.get('close_after_reads'):
      wend = res['wend'] or ''
      hw = ''.join(dev.host_written.get(rid, []))
      want = ''.join(res['written'])
      if wend.startswith('exc:') and not (st.get('closed_by_device') and 'Closed' in wend):
        viols.append({'clause': 'host_write_raised', 'details': {'svc': svc, 'wend': wend, 'msg': res.get('wexc_msg')}})
      elif not hw.startswith(want):
        viols.append({'clause': 'host_data_corrupted_at_device', 'details': {'svc': svc, 'got': hw[:40], 'want': want[:40]}})
    # bounded blocking
    for (what, to, dur, how) in res['calls']:
      if to is not None and dur > to / 1000.0 + 0.06:
        viols.append({'clause': 'call_outlived_its_timeout', 'details': {'call': what, 'timeout_ms': to,
                                                                         'took_s': round(dur, 3), 'outcome': how}})
        break
      if how == 'AdbTimeoutError':
        viols.append({'clause': 'unexpected_timeout', 'details': {'call': what, 'timeout_ms': to, 'svc': svc,
                                                                  'took_s': round(dur, 3)}})
        break
  if any(e[3] == 'enter' and e[4] == 'enqueue_message' for e in sim.log):
    probes['message_for_other_stream_queued'] = 1
