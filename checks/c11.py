"""C11 - runs are isolated: descriptors are never mutated, derived phases are copies."""
import hashlib
import threading

from simkit import core
from simkit import env
from wx import common
from wx import gen
from wx import oracles
from wx import run as run_mod

PROPERTY = 'C11'
LEVEL = 'exploration'
TECHNIQUE = ('deterministic simulation: (a) seeded derive / decorate / mutate histories over shared phase objects with '
             'structural snapshots, (b) the same generated Test executed 2-3 times, (c) two Tests sharing phase objects '
             'executed concurrently in two simulated threads under seeded schedules; per-run records and event sequences '
             'compared with the solo behaviour')
LEVEL_TEXT = ('seeded exploration in three parts: (a) histories of with_args / with_plugs / PhaseOptions / measures / diagnose '
              '/ plug / nesting into sequences, groups, subtests and branches over shared phase objects, after which the '
              'derived object is mutated or built into a Test and run; a deep structural snapshot of every original object '
              '(options, measurements incl. value state, validators, plugs, diagnosers, kwargs, node tuples) must be identical '
              'before and after; (b) one generated Test executed 2-3 times with the same scripted behaviours: every run must '
              'start from UNSET measurements, an empty state dict and an empty diagnoses store, produce the same workload '
              'event sequence and an equal record (volatile fields excluded), and leave the declared node tree structurally '
              'unchanged; (c) two Tests built from the same phase descriptor objects executed concurrently in two simulated '
              'threads with line-level pre-emption: each test\'s bodies must only ever see their own state dict, diagnoses, '
              'measurement values, attachments, plug instance and record. Sampling of histories and schedules.')
LEVEL_NOTE = 'trusted: simkit, the structural snapshot function in this file, generated workload code'
DESIGN_REF = 'DESIGN.md section 4, C11'
RULE = ('one run = one derive history, one multi-execute program or one concurrent pair + schedule; non-trivial = always '
        '(every mode exercises sharing); distinct = distinct event-log / history digests')
ASSUMPTIONS = common.W_EXEC_ASSUMPTIONS
COMPONENTS = common.W_EXEC_COMPONENTS
QUICK = {'budget_s': 40}
THOROUGH = {'budget_s': 480}
EXPECTED_PROBES = ['later_runs_without_trigger', 'derive_history', 'derived_mutated', 'derived_run', 'rerun', 'concurrent_pair', 'shared_plug_class',
                   'bodies_interleaved']

PROF = gen.profile(max_nodes=7, max_depth=3, w_group=3, w_subtest=2, w_branch=1, w_ckpt_fail=1, w_ckpt_diag=0,
                   p_meas=500, p_diag=350, p_plug=300, p_attach=300, p_logs=400, p_fault_beh=200, p_test_diag=200,
                   p_test_start=200)

_m = {}


def setup():
  common.setup()
  from workloads import isobodies
  _m['iso'] = isobodies


# ------------------------------------------------------------ structural snapshot
def snap(node):
  import attr
  import openhtf as htf
  from openhtf.core import phase_branches, phase_collections, phase_group
  if isinstance(node, htf.PhaseDescriptor):
    o = attr.asdict(node.options, filter=lambda a, v: a.name != 'run_if')
    ms = []
    for m in node.measurements:
      ms.append((m.name, m.outcome.name, bool(m.measured_value.is_value_set), tuple(str(v) for v in m.validators),
                 tuple(str(cv.validator) for cv in m.conditional_validators), len(m.dimensions or ()),
                 m.transform_fn is not None, m.marginal))
    return ('phase', getattr(node.func, '__name__', '?'), tuple(sorted((k, repr(v)) for k, v in o.items())),
            node.options.run_if is not None,
            tuple((p.name, getattr(p.cls, '__name__', repr(p.cls)), p.update_kwargs) for p in node.plugs), tuple(ms),
            tuple(getattr(d, 'name', repr(d)) for d in node.diagnosers), tuple(sorted((k, repr(v)) for k, v in node.extra_kwargs.items())),
            node.code_info.name)
  if isinstance(node, phase_group.PhaseGroup):
    return ('group', node.name, snap(node.setup) if node.setup else None, snap(node.main) if node.main else None,
            snap(node.teardown) if node.teardown else None)
  if isinstance(node, phase_collections.PhaseSequence):
    extra = ()
    if isinstance(node, phase_branches.BranchSequence):
      extra = (str(node.diag_condition),)
    return (type(node).__name__, node.name, tuple(snap(n) for n in node.nodes)) + extra
  if isinstance(node, phase_branches.Checkpoint):
    return ('ckpt', type(node).__name__, node.name, str(node.action))
  return ('other', repr(node)[:40])


def run_one(tape):
  mode = tape.weighted([(3, 'rerun'), (3, 'concurrent'), (3, 'derive')], 'mode')
  if mode == 'rerun':
    return run_rerun(tape)
  if mode == 'concurrent':
    return run_concurrent(tape)
  return run_derive(tape)


# ------------------------------------------------------------------- (b) re-run
def _record_view(rec):
  """The run-dependent content of a record (volatile fields excluded)."""
  phases = []
  for p in rec.phases:
    ms = []
    for n, m in sorted((p.measurements or {}).items()):
      ms.append((n, m.outcome.name, repr(m.measured_value.value) if m.measured_value.is_value_set else None, m.marginal))
    phases.append((p.name, p.outcome.name if p.outcome else None, oracles.result_kind(p.result), p.subtest_name,
                   tuple(ms), tuple(sorted(p.attachments)), tuple(str(r) for r in p.diagnosis_results),
                   tuple(str(r) for r in p.failure_diagnosis_results)))
  logs = tuple(l.message for l in rec.log_records if 'log ' in l.message and ' inv' in l.message)
  return (rec.outcome.name if rec.outcome else None, tuple(phases), tuple((s.name, s.outcome.name) for s in rec.subtests),
          tuple((b.name, b.branch_taken) for b in rec.branches), tuple((c.name, oracles.result_kind(c.result)) for c in rec.checkpoints),
          tuple((str(d.result), d.is_failure) for d in rec.diagnoses), rec.dut_id, logs)


def run_rerun(tape):
  g = gen.Gen(tape, PROF)
  spec = g.program()
  for ph in gen.all_phase_specs(spec):
    ph['first'] = True
  executes = 2 + tape.draw(2, 'executes')
  # first execution with a trigger phase that has plugs of its own, later ones without it: what
  # the trigger needed must not stick to the Test
  ts = spec['test_start']
  if isinstance(ts, dict) and ts['plugs'] and tape.chance(600, 'later_start_none'):
    spec['later_start_none'] = True
  snaps = {}

  def extra(sim, ctx, test, threads):
    snaps['before'] = snap(test.descriptor.phase_sequence)
    snaps['test'] = test

  obs = run_mod.run_spec(tape, spec, extra_threads=extra, executes=executes, style=tape.draw(4, 'style'))
  viols = []
  probes = {'rerun': 1}
  runs = obs.extra.get('runs') or []
  if obs.failed is None and len(runs) >= 2 and 'test' in snaps:
    after = snap(snaps['test'].descriptor.phase_sequence)
    if after != snaps['before']:
      viols.append({'clause': 'descriptor_mutated_by_execution', 'details': {'diff': _first_diff(snaps['before'], after)}})
    log = obs.log
    bounds = [0] + [r['log_to'] for r in runs]
    if spec.get('later_start_none'):
      from workloads import bodies as _b
      probes['later_runs_without_trigger'] = 1
      own = set(_b.PLUGS[''][pi].LABEL for ph in gen.all_phase_specs(spec) for pi in ph['plugs'].values())
      for j in range(1, len(runs)):
        built = set(e[4] for e in log[bounds[j]:bounds[j + 1]] if e[3] == 'plug_ctor')
        if not built <= own:
          viols.append({'clause': 'plug_of_an_earlier_runs_trigger_constructed', 'details': {
              'run': j, 'constructed': sorted(built), 'declared_by_the_tests_phases': sorted(own)}})
          break
      res = run_mod.result_from(obs, viols, probes, True, {'mode': 'rerun', 'executes': executes, 'later_start_none': True})
      return res
    # per-run workload event sequences
    seqs = []
    for j in range(len(runs)):
      seqs.append([tuple(e[3:]) for e in log[bounds[j]:bounds[j + 1]]
                   if e[3] in ('body_start', 'body_end', 'fresh_state', 'diag', 'test_diag', 'run_if', 'plug_ctor', 'callback')
                   and not (e[3] == 'plug_ctor')])
    for j in range(1, len(seqs)):
      if seqs[j] != seqs[0]:
        i = 0
        while i < len(seqs[j]) and i < len(seqs[0]) and seqs[j][i] == seqs[0][i]:
          i += 1
        viols.append({'clause': 'later_run_behaves_differently', 'details': {
            'run': j, 'first': [list(x) for x in seqs[0][i:i + 2]], 'later': [list(x) for x in seqs[j][i:i + 2]]}})
        break
    for e in log:
      if e[3] == 'fresh_state' and ('seen_' + e[4]) in e[6]:
        viols.append({'clause': 'state_dict_not_empty_at_first_use', 'details': {'phase': e[4], 'keys': e[6]}})
        break
    # records
    sink_bounds = [0] + [r['sink_to'] for r in runs]
    views = []
    for j in range(len(runs)):
      recs = [r for (_, r) in obs.sink[sink_bounds[j]:sink_bounds[j + 1]]]
      views.append(_record_view(recs[0]) if recs else None)
    for j in range(1, len(views)):
      if views[j] != views[0] and views[j] is not None and views[0] is not None:
        viols.append({'clause': 'record_depends_on_earlier_run', 'details': {'run': j, 'diff': _first_diff(views[0], views[j])}})
        break
    recs_all = [r for (_, r) in obs.sink]
    if len(set(id(r) for r in recs_all)) < len(runs) and len(spec['callbacks']) >= 1:
      viols.append({'clause': 'record_object_reused_across_runs', 'details': {}})
  res = run_mod.result_from(obs, viols, probes, True, {'mode': 'rerun', 'executes': executes})
  return res


def _first_diff(a, b, path=''):
  if type(a) is not type(b):
    return '%s: %r != %r' % (path, str(a)[:60], str(b)[:60])
  if isinstance(a, (tuple, list)):
    if len(a) != len(b):
      return '%s: length %d != %d' % (path, len(a), len(b))
    for i, (x, y) in enumerate(zip(a, b)):
      if x != y:
        return _first_diff(x, y, '%s[%d]' % (path, i))
    return path
  return '%s: %r != %r' % (path, str(a)[:60], str(b)[:60])


# ------------------------------------------------------------- (c) concurrent
def run_concurrent(tape):
  import openhtf as htf
  iso = _m['iso']
  env.hygiene()
  nph = 1 + tape.draw(4, 'nphases')
  with_plug = tape.chance(500, 'plug')
  with_args = tape.chance(500, 'args')
  knobs = core.Knobs(p_sync=tape.pick([50, 150, 400], 'p_sync'), gap_mean=tape.pick([0, 15, 40, 120], 'gap'),
                     hot_span=tape.pick([0, 10], 'hot'), max_steps=2000000, max_time=200.0)
  viols = []
  probes = {'concurrent_pair': 1}
  sink = {'A': [], 'B': []}
  out = {}
  with env.NoGC(10):
    sim = core.Sim(tape, env.TRACE_PREFIXES, knobs)
    iso.IsoPlug.COUNTER[0] = 0
    run_of = {}
    reps = 1 + tape.draw(2, 'reps')
    nodes = iso.make_shared_nodes(sim, nph, with_plug, with_args, run_of)
    shape = tape.pick(['flat', 'seq', 'group'], 'shape')
    if shape == 'seq':
      shared = [htf.PhaseSequence(*nodes, name='sharedseq')]
    elif shape == 'group':
      shared = [htf.PhaseGroup(setup=nodes[:1], main=nodes[1:] or None, teardown=None, name='sharedgrp')]
    else:
      shared = nodes
    before = [snap(n) for n in shared]
    ta = htf.Test(*shared, test_name='isoA')
    tb = htf.Test(*shared, test_name='isoB')
    ta.add_output_callbacks(sink['A'].append)
    tb.add_output_callbacks(sink['B'].append)
    before_own = [snap(ta.descriptor.phase_sequence), snap(tb.descriptor.phase_sequence)]
    sim.begin()
    try:
      th = threading.Thread(target=iso.run_test, args=(sim, tb, out, 'B', reps, run_of), name='execB')
      th.daemon = True
      th.start()
      iso.run_test(sim, ta, out, 'A', reps, run_of)
      th.join()
    except core.SimAbort:
      pass
    finally:
      failed = sim.failed
      sim.end()
  log = sim.log
  if failed in ('deadlock', 'hang'):
    viols.append({'clause': 'concurrent_tests_stuck', 'details': {'info': (sim.failed_info or '')[:200]}})
  elif failed is None:
    if with_plug:
      probes['shared_plug_class'] = 1
    after = [snap(n) for n in shared]
    if after != before:
      viols.append({'clause': 'shared_phase_objects_mutated', 'details': {'diff': _first_diff(before, after)}})
    after_own = [snap(ta.descriptor.phase_sequence), snap(tb.descriptor.phase_sequence)]
    if after_own != before_own and not viols:
      viols.append({'clause': 'descriptor_mutated_by_execution', 'details': {'diff': _first_diff(before_own, after_own)}})
    owners = {}
    last_who = None
    for e in log:
      if e[3] != 'iso_body':
        continue
      who, k, nstate, pre, in_store, plug_owner, scale, run = e[4:12]
      want_store = () if k == 0 else ((('R2',) if run == 0 else ('R4',)) if who.endswith('A') else ('R3',))
      if tuple(in_store) != want_store:
        viols.append({'clause': 'diagnoses_store_not_own', 'details': {'test': who, 'phase': k, 'run': run, 'store': list(in_store)}})
        break
      if last_who is not None and last_who != who:
        probes['bodies_interleaved'] = 1
      last_who = who
      if nstate != k:
        viols.append({'clause': 'state_dict_shared_between_tests', 'details': {'test': who, 'phase': k, 'keys': nstate}})
        break
      if pre != 'UNSET':
        viols.append({'clause': 'measurement_not_pristine', 'details': {'test': who, 'phase': k}})
        break
      if plug_owner is not None and plug_owner != who:
        viols.append({'clause': 'plug_instance_shared_between_tests', 'details': {'test': who, 'plug_claimed_by': plug_owner}})
        break
      if with_args and scale != (3 if k % 2 == 0 else 1):
        viols.append({'clause': 'phase_arguments_wrong', 'details': {'test': who, 'phase': k, 'scale': scale}})
        break
    for key in ('A', 'B'):
      for r in range(reps):
        if viols:
          break
        _check_iso_record(viols, key, r, reps, nph, out, sink)
  return {
      'violations': viols[:1], 'digest': sim.digest(), 'sched': sim.sched_digest(), 'nontrivial': True,
      'faults': {}, 'probes': probes, 'steps': sim.steps, 'switches': sim.switches, 'preempts': sim.preemptions,
      'sim_s': sim.now - core.T0,
      'sample': {'mode': 'concurrent', 'phases': nph, 'reps': reps, 'plug': with_plug, 'with_args': with_args, 'shape': shape,
                 'events': [list(e[2:8]) for e in log if e[3] == 'iso_body'][:12]},
      'abnormal': ('%s: %s' % (failed, sim.failed_info)) if failed in ('steplimit', 'unwind') else None,
      'poison': bool(failed),
  }


def _check_iso_record(viols, key, r, reps, nph, out, sink):
  """Record r of test `key` must be what that test produces alone."""
  name = 'iso' + key
  # A's first run yields R2 after phase 0, which activates the conditional validator (value 7
  # outside 0..5) of every later phase: that run FAILs when it has 2+ phases; all others PASS
  cond_active = key == 'A' and r == 0
  want_ret = not (cond_active and nph >= 2)
  got = out.get(key) or []
  rec = sink[key][r] if len(sink[key]) > r else None
  if len(got) <= r or got[r] is not want_ret:
    viols.append({'clause': 'concurrent_test_did_not_pass' if want_ret else 'concurrent_test_result_wrong', 'details': {
        'test': key, 'run': r, 'result': str(got[r] if len(got) > r else None)[:100],
        'outcome': rec.outcome.name if rec is not None and rec.outcome else None,
        'outcome_details': [str(d)[:200] for d in (rec.outcome_details if rec is not None else [])][:3],
        'errors': [l.message[:300] for l in (rec.log_records if rec is not None else []) if l.level >= 40][:3]}})
    return
  if len(sink[key]) != reps:
    viols.append({'clause': 'record_count', 'details': {'test': key, 'n': len(sink[key])}})
    return
  if rec.metadata.get('test_name') != name or len(rec.phases) != nph:
    viols.append({'clause': 'record_of_other_test', 'details': {'test': key, 'name': rec.metadata.get('test_name'),
                                                               'phases': len(rec.phases)}})
    return
  base = 10 if key == 'A' else 20
  want_res = ('R2' if r == 0 else 'R4') if key == 'A' else 'R3'
  for k, p in enumerate(rec.phases):
    mv = p.measurements['val%d' % k].measured_value
    if not mv.is_value_set or mv.value != base + k:
      viols.append({'clause': 'measurement_value_of_other_test', 'details': {
          'test': key, 'run': r, 'phase': k, 'value': repr(mv.value if mv.is_value_set else None)}})
      return
    cm = p.measurements['cond%d' % k]
    want_cond = 'FAIL' if (cond_active and k >= 1) else 'PASS'
    if cm.outcome.name != want_cond or len(cm.validators) != (1 if want_cond == 'FAIL' else 0):
      viols.append({'clause': 'conditional_validator_leaked', 'details': {
          'test': key, 'run': r, 'phase': k, 'outcome': cm.outcome.name, 'validators': [str(v) for v in cm.validators]}})
      return
    if sorted(p.attachments) != ['att_%s_%d' % (name, k)]:
      viols.append({'clause': 'attachment_of_other_test', 'details': {'test': key, 'run': r, 'attachments': sorted(p.attachments)}})
      return
    if [x.name for x in p.diagnosis_results] != [want_res]:
      viols.append({'clause': 'diagnosis_of_other_test', 'details': {'test': key, 'run': r, 'results': [x.name for x in p.diagnosis_results]}})
      return
  if sorted(set(d.result.name for d in rec.diagnoses)) != [want_res]:
    viols.append({'clause': 'diagnoses_store_shared', 'details': {'test': key, 'run': r,
                                                                 'results': sorted(set(d.result.name for d in rec.diagnoses))}})
    return
  own = [l.message for l in rec.log_records if l.message.startswith('isolog')]
  if own != ['isolog %s phase%d' % (name, k) for k in range(nph)]:
    viols.append({'clause': 'phase_log_lines_wrong', 'details': {'test': key, 'run': r, 'messages': own[:6]}})


# ------------------------------------------------------------------ (a) derive
def run_derive(tape):
  import openhtf as htf
  from openhtf.core import base_plugs
  from workloads import bodies, isobodies
  env.hygiene()
  hist = []
  viols = []
  probes = {'derive_history': 1}

  def base0(test, a=1, **kw):
    return None

  def base1(test):
    return None

  class Holder(base_plugs.BasePlug):
    auto_placeholder = True

  class SubHolder(Holder):
    pass

  p0 = htf.measures(htf.Measurement('m0').in_range(0, 10), htf.Measurement('m1_{tag}'))(
      htf.PhaseOptions(name='base0_{tag}', timeout_s=7)(base0))
  p0 = htf.plug(holder=Holder)(p0)
  p1 = htf.diagnose(bodies.ScriptedPhaseDiagnoser(bodies.Ctx(None), {'name': 'dd', 'outs': [[]]}))(base1)

  def base2(test, holder):
    return None

  # a placeholder plug and a plain (template-free) name: with_plugs() really substitutes here
  p2 = htf.PhaseOptions(timeout_s=5)(htf.plug(holder=Holder)(base2))
  originals = {'p0': p0, 'p1': p1, 'p2': p2}
  originals['grp2'] = htf.PhaseGroup(main=[p2], teardown=[p2], name='grp2')
  originals['seq'] = htf.PhaseSequence(p0, p1, name='seq_{tag}')
  originals['grp'] = htf.PhaseGroup(setup=[p1], main=[p0], teardown=[p1], name='grp')
  originals['sub'] = htf.Subtest('sub_{tag}', p0, originals['grp'])
  before = dict((k, snap(v)) for k, v in originals.items())
  derived = []
  n = 2 + tape.draw(8, 'nops')
  for _ in range(n):
    src_name = tape.pick(sorted(originals), 'src')
    pool = [originals[src_name]] + [d for d in derived[-3:]]
    src = tape.pick(pool, 'which')
    op = tape.weighted([(3, 'with_args'), (2, 'with_plugs'), (2, 'options'), (2, 'measures'), (2, 'diagnose'),
                        (1, 'plug'), (2, 'nest'), (1, 'load_code_info'), (1, 'copy')], 'op')
    try:
      if op == 'with_args':
        d = src.with_args(tag=tape.pick(['x', 'y'], 'tag'), a=5)
      elif op == 'with_plugs':
        d = src.with_plugs(holder=SubHolder)
      elif op == 'options' and isinstance(src, htf.PhaseDescriptor):
        d = htf.PhaseOptions(timeout_s=tape.pick([1, 2], 'to'), repeat_limit=2)(src)
      elif op == 'measures' and isinstance(src, htf.PhaseDescriptor):
        d = htf.measures(htf.Measurement('extra%d' % len(derived)))(src)
      elif op == 'diagnose' and isinstance(src, htf.PhaseDescriptor):
        d = htf.diagnose(bodies.ScriptedPhaseDiagnoser(bodies.Ctx(None), {'name': 'dx%d' % len(derived), 'outs': [[]]}))(src)
      elif op == 'plug' and isinstance(src, htf.PhaseDescriptor):
        d = htf.plug(**{'gadget%d' % len(derived): isobodies.IsoPlug})(src)
      elif op == 'nest':
        kind = tape.pick(['seq', 'group', 'subtest', 'branch'], 'nestkind')
        if kind == 'seq':
          d = htf.PhaseSequence(src, name='n%d' % len(derived))
        elif kind == 'group':
          d = htf.PhaseGroup(setup=[src], main=[src], name='g%d' % len(derived))
        elif kind == 'subtest':
          d = htf.Subtest('s%d' % len(derived), src)
        else:
          d = htf.BranchSequence(htf.DiagnosisCondition.on_all(bodies.R.R0), src, name='b%d' % len(derived))
      elif op == 'load_code_info':
        d = src.load_code_info()
      elif op == 'copy' and isinstance(src, htf.PhaseDescriptor):
        d = htf.PhaseDescriptor.wrap_or_copy(src)
      else:
        continue
    except Exception as e:  # pylint: disable=broad-except
      hist.append('%s(%s) -> %s' % (op, src_name, type(e).__name__))
      continue
    hist.append('%s(%s)' % (op, src_name))
    derived.append(d)
    # mutate or use the derived object
    act = tape.weighted([(3, 'mutate'), (2, 'none'), (1, 'run')], 'act')
    if act == 'mutate':
      probes['derived_mutated'] = 1
      _mutate(d, tape, hist)
    elif act == 'run':
      probes['derived_run'] = 1
      try:
        t = htf.Test(d.with_args(tag='r') if hasattr(d, 'with_args') else d)
        recs = []
        t.add_output_callbacks(recs.append)
        t.execute()
        hist.append('run')
      except Exception as e:  # pylint: disable=broad-except
        hist.append('run -> %s' % type(e).__name__)
    after = dict((k, snap(v)) for k, v in originals.items())
    if after != before:
      bad = [k for k in sorted(before) if before[k] != after[k]]
      viols.append({'clause': 'original_changed_by_derived_object', 'details': {
          'changed': bad, 'diff': _first_diff(before[bad[0]], after[bad[0]]), 'history': hist[-5:]}})
      break
  dg = hashlib.sha1(repr(hist).encode()).hexdigest()
  return {
      'violations': viols, 'digest': dg, 'sched': None, 'nontrivial': True, 'faults': {}, 'probes': probes,
      'steps': 0, 'switches': 0, 'preempts': 0, 'sim_s': 0.0, 'sample': {'mode': 'derive', 'history': hist[:12]},
      'abnormal': None, 'poison': False,
  }


def _mutate(d, tape, hist):
  """Mutates a derived object through its public attributes."""
  import openhtf as htf
  from openhtf.core import phase_group
  # any phase descriptor inside the derived object, however deeply nested
  found = []

  def walk(n, depth):
    if isinstance(n, htf.PhaseDescriptor):
      found.append(n)
    elif isinstance(n, phase_group.PhaseGroup):
      for part in (n.setup, n.main, n.teardown):
        if part is not None:
          walk(part, depth + 1)
    elif hasattr(n, 'nodes'):
      for c in n.nodes:
        walk(c, depth + 1)

  walk(d, 0)
  if not found:
    return
  target = found[tape.draw(len(found), 'which_phase')]
  what = tape.pick(['options', 'measurement_value', 'add_measurement', 'extra_kwargs', 'plugs', 'validator',
                    'diagnosers', 'options_name'], 'mut')
  hist.append('mutate:' + what)
  try:
    if what == 'options':
      target.options.timeout_s = 99
      target.options.repeat_limit = 9
    elif what == 'options_name':
      target.options.name = 'renamed'
    elif what == 'measurement_value' and target.measurements:
      m = target.measurements[0]
      if not m.dimensions:
        m.measured_value.set(3)
        m.notify_value_set()
    elif what == 'add_measurement':
      target.measurements.append(htf.Measurement('appended'))
    elif what == 'extra_kwargs':
      target.extra_kwargs['injected'] = 1
    elif what == 'plugs' and target.plugs:
      target.plugs.pop()
    elif what == 'validator' and target.measurements:
      target.measurements[0].with_validator(lambda v: False)
    elif what == 'diagnosers':
      target.diagnosers.append(None)
  except Exception as e:  # pylint: disable=broad-except
    hist.append('mutate -> %s' % type(e).__name__)
