"""C09 - execute() hands a complete, final record to every output callback exactly once"""
from wx import common
from wx import gen
from wx import oracles

PROPERTY = 'C09'
LEVEL = 'exploration'
TECHNIQUE = ('deterministic simulation of Test.execute() over all exit paths (normal, terminal test_start, plug failure, abort by thread or SIGINT, timeouts) with raising callbacks; record-completeness predicate, callback log and global-registration audit after execute()')
LEVEL_TEXT = ('seeded exploration over exit paths and callback fault subsets: the record handed to the callbacks must be complete and final (outcome, end time, start <= end, every phase record has outcome/result/options and start <= end <= test end, dut_id set, metadata test name + config snapshot); the callback log must show every registered callback once, in order, with the same record object even if others raise; execute() returns True iff PASS; afterwards the Test holds no executor, test.state is None, TEST_INSTANCES is empty and no RecordHandler is left on the openhtf logger. Repeated and overlapping execute() calls are exercised by the C11 workload (consecutive runs) and by an overlapping second execute() from a simulated thread.')
LEVEL_NOTE = ('trusted: simkit, generated callbacks; SIGINT-related open findings are listed in known_findings.json (owned by C04) with signatures')
DESIGN_REF = 'DESIGN.md section 4, C09'
RULE = ('one run = generated program + callback fault subset + optional abort / plug fault + schedule; non-trivial = a callback raises or a fault/abort fired; distinct = distinct event-log digests')
ASSUMPTIONS = common.W_EXEC_ASSUMPTIONS
COMPONENTS = common.W_EXEC_COMPONENTS
QUICK = {'budget_s': 40}
THOROUGH = {'budget_s': 480}
EXPECTED_PROBES = ['raising_callback', 'outcome_PASS', 'outcome_FAIL', 'outcome_ERROR', 'outcome_TIMEOUT', 'outcome_ABORTED']

PROF = gen.profile(max_nodes=8, max_depth=3, w_phase=10, w_group=3, w_subtest=2, w_branch=1, w_ckpt_fail=1, w_ckpt_diag=0, p_fault_beh=250, p_timeout=60, p_plug=200, plug_faults=200, p_test_start=300, abort=250, abort2=150, sigint=400, p_callbacks_raise=350, p_dur=300, p_profile=100, p_monitor=100, p_dut_percent=300)


def setup():
  common.setup()


EXPECTED_PROBES += ['consecutive_executes', 'overlapping_execute_refused']


def run_one(tape):
  import threading
  from simkit import core
  from workloads import bodies
  executes = tape.weighted([(5, 1), (3, 2), (1, 3)], 'executes')
  overlap = tape.chance(250, 'overlap')
  ov = {}
  if overlap:
    ov['event'] = tape.draw(14, 'ov_event')
    ov['off'] = tape.draw(tape.pick([1, 6, 40, 400], 'ov_cls'), 'ov_off')

  def extra(sim, ctx, test, threads):
    if not overlap:
      return
    gate = core.Gate()
    th = threading.Thread(target=bodies.overlapper, args=(ctx, test, gate, None), name='overlapper')
    th.daemon = True
    th.start()
    threads.append(('o', th))
    cnt = {'n': 0, 'armed': False}
    prev = sim.on_event

    def on_event(rec):
      if prev is not None:
        prev(rec)
      if cnt['armed']:
        return
      if not cnt.get('running'):
        # only once the first execute() has started its executor: before that the
        # "overlapping" call would simply be the first run
        if rec[3] == 'thread_start' and rec[5] == 'TestExecutorThread':
          cnt['running'] = True
        return
      if rec[3].startswith(('body_', 'plug_', 'callback', 'exec_call', 'diag', 'test_diag', 'enter')):
        if cnt['n'] == ov['event']:
          cnt['armed'] = True
          sim.at_step(sim.steps + 1 + ov['off'], lambda frame: gate.open())
        cnt['n'] += 1

    sim.on_event = on_event
    ctx.overlap_gate = gate

  return common.run_with(tape, PROF, [oracles.c09], executes=executes, extra_threads=extra)
