"""C09 - execute() hands a complete, final record to every output callback exactly once"""
from wx import common
from wx import gen
from wx import oracles

PROPERTY = 'C09'
LEVEL = 'exploration'
TECHNIQUE = ('deterministic simulation of Test.execute() over all exit paths (normal, terminal test_start, plug failure, abort by thread or SIGINT, timeouts) with raising callbacks; record-completeness predicate, callback log and global-registration audit after execute()')
LEVEL_TEXT = ('seeded exploration over exit paths and callback fault subsets: the record handed to the callbacks must be complete and final (outcome, end time, start <= end, every phase record has outcome/result/options and start <= end <= test end, dut_id set, metadata test name + config snapshot); the callback log must show every registered callback once, in order, with the same record object even if others raise; execute() returns True iff PASS; afterwards the Test holds no executor, test.state is None, TEST_INSTANCES is empty and no RecordHandler is left on the openhtf logger. Repeated and overlapping execute() calls are exercised by the C11 workload (consecutive runs) and by an overlapping second execute() from a simulated thread.')
LEVEL_NOTE = ('trusted: simkit, generated callbacks; SIGINT-related open findings are listed in known_findings.json (owned by C04) with signatures')
DESIGN_REF = 'DESIGN.md section 4, C09'
RULE = ('one run = generated program + callback fault subset + optional abort / plug fault + schedule; non-trivial = a callback raises or a fault/abort fired; distinct = distinct event-log digests')
ASSUMPTIONS = common.W_EXEC_ASSUMPTIONS
COMPONENTS = common.W_EXEC_COMPONENTS
QUICK = {'budget_s': 40}
THOROUGH = {'budget_s': 480}
EXPECTED_PROBES = ['raising_callback', 'outcome_PASS', 'outcome_FAIL', 'outcome_ERROR', 'outcome_TIMEOUT', 'outcome_ABORTED']

PROF = gen.profile(max_nodes=8, max_depth=3, w_phase=10, w_group=3, w_subtest=2, w_branch=1, w_ckpt_fail=1, w_ckpt_diag=0, p_fault_beh=250, p_timeout=60, p_plug=200, plug_faults=200, p_test_start=300, abort=250, abort2=150, sigint=400, p_callbacks_raise=350, p_dur=300)


def setup():
  common.setup()


def run_one(tape):
  return common.run_with(tape, PROF, [oracles.c09])
