"""C19 - log capture: every run log recorded once, in order, in its own run only."""
import logging
import os
import re
import threading

from simkit import core
from simkit import env
from wx import build
from wx import common
from wx import gen
from wx import run as run_mod

PROPERTY = 'C19'
LEVEL = 'exploration'
TECHNIQUE = ('deterministic simulation: one or two generated Tests executing (concurrently, 1-2 times each) under seeded '
             'line-level schedules with an outsider logging thread, phase / plug-constructor / teardown faults and operator '
             'aborts; every logging call under "openhtf" is stamped (begin, end) at the Logger.handle seam and every '
             'RecordHandler.emit is observed; the recorded history is checked against a window/filter/redaction reference')
LEVEL_TEXT = ('seeded exploration. Workload: Test A on the main thread and (75%) Test B on a second simulated thread, each a '
              'generated W-exec program (groups, subtests, branches, repeats, raising phases, raising plug constructors and '
              'tearDowns, raising test_start) whose phases, plugs and an outsider thread log messages of 14 shapes (MAC '
              'addresses in the template, in str / list / tuple / object / mapping arguments, as non-str message object, '
              'upper/lower/mixed case, literal percent signs) through test.logger, plug loggers, get_record_logger_for(uid) '
              'for the live uid, for uid prefixes / extensions / unknown uids, stdlib loggers under the record prefix, and '
              'framework loggers. Oracle over the stamped history: (1) a message wholly inside a run\'s handler window whose '
              'logger is a framework logger or one of that run\'s record loggers is in that run\'s log_records exactly once; '
              '(2) a message of another uid\'s record logger never is; (3) a message wholly outside the window never is; (4) '
              'real-time order: a message that finished before another began precedes it; (5) level, logger name, source '
              'file, line, millisecond timestamp equal the logging record\'s, the text equals the formatted message with '
              'every six-octet MAC cut to its vendor prefix; (6) each emit appends exactly one entry and entries are never '
              'changed afterwards; (7) after the runs no RecordHandler is left on the "openhtf" logger, the handler count is '
              'back at its baseline, and later logging (framework and the finished uids\' record loggers) leaves the '
              'finished records untouched. Sampling of programs, shapes and schedules.')
LEVEL_NOTE = 'trusted: simkit, the reference filter / redaction in this file, generated workload code'
DESIGN_REF = 'DESIGN.md section 4, C19'
RULE = ('one run = one program pair + message plan + schedule; non-trivial = at least one record-logger message and one '
        'framework message were logged inside a handler window; distinct = distinct event-log digests')
ASSUMPTIONS = common.W_EXEC_ASSUMPTIONS + [
    'CPython\'s logging package runs untraced: it is pre-empted only at its locks (Handler.acquire, module lock), which is '
    'where its real interleavings with handler removal happen',
    'aborts are delivered from an operator thread (SIGINT-driven teardown defects are owned by C04)',
]
COMPONENTS = dict(common.W_EXEC_COMPONENTS)
QUICK = {'budget_s': 40}
THOROUGH = {'budget_s': 480}
EXPECTED_PROBES = ['two_tests_overlapped', 'consecutive_runs', 'own_record_logger_from_outsider', 'foreign_uid_message',
                   'framework_message_in_window', 'mac_redacted', 'mac_in_nonstr_arg', 'mapping_args', 'plug_ctor_log',
                   'aborted_run', 'message_during_other_remove', 'post_run_logging',
                   'cli_verbosity_0', 'cli_verbosity_1', 'cli_verbosity_2', 'debug_message_recorded']

PROF_A = gen.profile(max_nodes=6, max_depth=2, p_logs=500, p_xlogs=500, p_plug=450, p_attach=100, p_meas=150, p_diag=150,
                     p_dur=250, p_fault_beh=250, p_test_start=250, p_test_diag=100, p_settings=150, p_dut_percent=250,
                     p_callbacks_raise=200)
PROF_B = gen.profile(max_nodes=5, max_depth=2, p_logs=500, p_xlogs=500, p_plug=450, p_attach=50, p_meas=100, p_diag=100,
                     p_dur=250, p_fault_beh=200, p_test_start=150, p_test_diag=0, p_settings=0)

REF_MAC = re.compile(r'((?:[0-9A-F]{2}:){3})(?:[0-9A-F]{2}:){2}[0-9A-F]{2}', re.IGNORECASE)
ANY_MAC = re.compile(r'(?<![0-9A-F:])(?:[0-9A-F]{2}:){5}[0-9A-F]{2}(?![0-9A-F:])', re.IGNORECASE)
PREFIX = 'openhtf.test_record'

_m = {}


def setup():
  common.setup()
  from workloads import logshapes
  _m['ls'] = logshapes
  logging.getLogger('openhtf.ext.station')
  logging.getLogger(PREFIX + '.ghost.phase.x')


def ref_passes(name, uid):
  """Reference filter: framework loggers and the run's own record loggers."""
  if not name.startswith(PREFIX + '.'):
    return True
  seg = name[len(PREFIX) + 1:].split('.')[0]
  return seg == uid


def owner_of(name):
  if not name.startswith(PREFIX + '.'):
    return None
  return name[len(PREFIX) + 1:].split('.')[0]


class LogWatch(object):
  """Stamps logging calls and handler activity at the logging seams (untraced)."""

  def __init__(self, sim):
    self.sim = sim
    self.seq = 0
    self.msgs = {}
    self.runs = {}
    self.run_order = []
    self.emits = []
    self.live = {}
    self.viols = []

  def tick(self):
    self.seq += 1
    return self.seq

  def install(self):
    from openhtf.util import logs
    lw = self
    self._logs = logs
    ls_types = (_m['ls'].MacHolder, _m['ls'].MsgObj)
    self._orig_handle = logging.Logger.handle
    self._orig_emit = logs.RecordHandler.emit
    self._orig_init = logs.initialize_record_handler
    self._orig_remove = logs.remove_record_handler

    def handle(logger, record):
      if not record.name.startswith('openhtf') or core.cur() is None:
        return lw._orig_handle(logger, record)
      vid = len(lw.msgs) + 1
      lw.msgs[vid] = None   # reserve: rendering the arguments below may switch threads
      record._vid = vid
      stable = all(isinstance(a, (str, int, float, list, tuple, dict, ls_types)) for a in
                   (record.args if isinstance(record.args, tuple) else (record.args,))) and \
          isinstance(record.msg, (str, ls_types))
      try:
        text = record.getMessage()
      except Exception:  # pylint: disable=broad-except
        text = None
      m = {'vid': vid, 'name': record.name, 'level': record.levelno, 'text': text, 'stable': stable,
           'source': os.path.basename(record.pathname), 'lineno': record.lineno, 'created': record.created,
           'has_exc': bool(record.exc_info), 'b': lw.tick(), 'e': None,
           'nonstr_arg': any(not isinstance(a, (str, int, float)) for a in record.args) if isinstance(record.args, tuple) else False,
           'mapping': isinstance(record.args, dict), 'nonstr_msg': not isinstance(record.msg, str)}
      lw.msgs[vid] = m
      lw.sim.event('log_begin', vid, record.name, record.levelno)
      try:
        return lw._orig_handle(logger, record)
      except BaseException:
        # the logging call itself was interrupted (the thread is being killed): no promise for it
        m['interrupted'] = True
        raise
      finally:
        m['e'] = lw.tick()
        lw.sim.event('log_end', vid)

    def emit(handler, record):
      rec = handler._test_record  # pylint: disable=protected-access
      n0 = len(rec.log_records)
      vid = getattr(record, '_vid', None)
      t0 = lw.tick()
      try:
        lw._orig_emit(handler, record)
      finally:
        # (also when the emitting thread is killed inside emit)
        n1 = len(rec.log_records)
        entry = rec.log_records[n0] if n1 > n0 else None
        lw.emits.append({'uid': handler.test_uid, 'vid': vid, 't': t0, 'n0': n0, 'n1': n1, 'entry': entry})
        lw.sim.event('rec_emit', handler.test_uid, vid, n1 - n0)

    def init(test_uid, test_record, notify_update):
      r = {'uid': test_uid, 'rec': test_record, 'name': test_record.metadata.get('test_name'), 'i0': lw.tick(),
           'i1': None, 'r0': None, 'r1': None}
      lw.runs[test_uid] = r
      lw.run_order.append(test_uid)
      lw.sim.event('h_init', test_uid, r['name'])
      lw._orig_init(test_uid, test_record, notify_update)
      r['i1'] = lw.tick()
      lw.live[test_uid] = True

    def remove(test_uid):
      r = lw.runs.get(test_uid)
      t = lw.tick()
      if r is not None and r['r0'] is None:
        r['r0'] = t
      lw.live.pop(test_uid, None)
      lw.sim.event('h_remove', test_uid)
      try:
        lw._orig_remove(test_uid)
      finally:
        if r is not None:
          r['r1'] = lw.tick()
        left = [h for h in logging.getLogger('openhtf').handlers
                if isinstance(h, logs.RecordHandler) and h.test_uid == test_uid]
        if left and not lw.viols:
          lw.viols.append({'clause': 'handler_still_installed_after_remove', 'details': {'n': len(left)}})

    # level gate: a call that never reaches Logger.handle was dropped by a logger level
    self._orig_level_methods = {}
    self.suppressed = []

    def make(name, orig):
      def method(logger, msg, *args, **kwargs):
        if not logger.name.startswith('openhtf') or core.cur() is None:
          return orig(logger, msg, *args, **kwargs)
        n0 = len(lw.msgs)
        t0 = lw.tick()
        kwargs['stacklevel'] = kwargs.get('stacklevel', 1) + 1   # this wrapper must not become "the caller"
        ret = orig(logger, msg, *args, **kwargs)
        # (reached only when the call returned normally: a call cut short by the phase kill
        # carries no promise)
        if len(lw.msgs) == n0:
          lw.suppressed.append({'name': logger.name, 'level': name, 'b': t0, 'e': lw.tick(), 'msg': str(msg)[:60]})
        return ret
      return method

    for lname in ('debug', 'info', 'warning', 'error', 'critical'):
      self._orig_level_methods[lname] = getattr(logging.Logger, lname)
      setattr(logging.Logger, lname, make(lname, self._orig_level_methods[lname]))
    logging.Logger.handle = handle
    logs.RecordHandler.emit = emit
    logs.initialize_record_handler = init
    logs.remove_record_handler = remove

  def uninstall(self):
    logging.Logger.handle = self._orig_handle
    for lname, orig in self._orig_level_methods.items():
      setattr(logging.Logger, lname, orig)
    self._logs.RecordHandler.emit = self._orig_emit
    self._logs.initialize_record_handler = self._orig_init
    self._logs.remove_record_handler = self._orig_remove


def _kind_of(m, run):
  own = owner_of(m['name'])
  if own is None:
    return 'framework'
  if own != run['uid']:
    return 'foreign'
  rest = m['name'][len(PREFIX) + 1 + len(own):]
  if rest.startswith('.phase'):
    return 'own_phase'
  if rest.startswith('.plug'):
    return 'own_plug'
  return 'own_test'


def evaluate(lw, probes):
  viols = list(lw.viols)
  by_run = {}
  for em in lw.emits:
    by_run.setdefault(em['uid'], []).append(em)
  for uid in lw.run_order:
    run = lw.runs[uid]
    ems = by_run.get(uid, [])
    seen = {}
    good = []
    for em in ems:
      m = lw.msgs.get(em['vid'])
      if m is None:
        viols.append({'clause': 'record_entry_of_unknown_origin', 'details': {'test': run['name']}})
        continue
      if em['n1'] - em['n0'] != 1 and not (m.get('interrupted') and em['n1'] == em['n0']):
        viols.append({'clause': 'emit_did_not_append_exactly_one_entry', 'details': {
            'test': run['name'], 'appended': em['n1'] - em['n0'], 'kind': _kind_of(m, run), 'mapping_args': m['mapping'],
            'nonstr_arg': m['nonstr_arg'], 'text': (m['text'] or '')[:60]}})
        continue
      if em['entry'] is None:
        continue
      if em['vid'] in seen:
        viols.append({'clause': 'message_recorded_twice', 'details': {'test': run['name'], 'kind': _kind_of(m, run)}})
        continue
      seen[em['vid']] = em
      good.append((em, m))
      kind = _kind_of(m, run)
      if kind == 'foreign':
        viols.append({'clause': 'foreign_message_recorded', 'details': {
            'test': run['name'], 'logger_shape': _shape_of_foreign(m['name'], lw)}})
      # window: wholly before the handler was installed / wholly after it was removed
      if m['e'] is not None and m['e'] < run['i0']:
        viols.append({'clause': 'message_from_before_the_run_recorded', 'details': {'test': run['name']}})
      if run['r1'] is not None and m['b'] > run['r1']:
        viols.append({'clause': 'message_from_after_the_run_recorded', 'details': {'test': run['name'], 'kind': kind}})
      # fields
      e = em['entry']
      want_text = REF_MAC.sub(lambda mo: mo.group(1) + '<REDACTED>', m['text']) if m['text'] is not None else None
      if want_text is not None and want_text != m['text']:
        probes['mac_redacted'] = 1
        if m['nonstr_arg']:
          probes['mac_in_nonstr_arg'] = 1
      if m['mapping']:
        probes['mapping_args'] = 1
      # (the shipped pattern also swallows a colon that directly follows the address: tolerated)
      wants = [want_text, want_text.replace('<REDACTED>:', '<REDACTED>')] if want_text is not None else []
      ok_text = any(e.message == w or (m['has_exc'] and e.message.startswith(w + '\n')) for w in wants)
      if not m['stable']:
        # the arguments are live objects (TestState, records...) rendered when the handler formats them
        ok_text = ok_text or not ANY_MAC.search(m['text'] or '')
      if not ok_text:
        leaked = bool(ANY_MAC.search(e.message.split('\n')[0]))
        viols.append({'clause': 'mac_address_not_redacted' if leaked else 'message_text_wrong', 'details': {
            'test': run['name'], 'kind': kind, 'nonstr_arg': m['nonstr_arg'], 'mapping_args': m['mapping'],
            'nonstr_msg': m['nonstr_msg'], 'got': e.message[:70], 'want': (want_text or '')[:70]}})
      got = (e.level, e.logger_name, e.source, e.lineno, e.timestamp_millis)
      want = (m['level'], m['name'], m['source'], m['lineno'], int(m['created'] * 1000))
      if got != want:
        viols.append({'clause': 'log_record_fields_wrong', 'details': {'test': run['name'], 'got': list(map(str, got)),
                                                                      'want': list(map(str, want))}})
      # independent of what logging itself computed: the workload's messages come from known files
      txt = m['text'] or ''
      src = 'logshapes.py' if txt.startswith(('xlog ', 'status of ')) else (
          'bodies.py' if (' inv' in txt and 'log p' in txt) or 'ctor log ' in txt or 'td log ' in txt else None)
      if src is not None and e.source != src:
        viols.append({'clause': 'log_record_source_file_wrong', 'details': {'test': run['name'], 'got': e.source, 'want': src,
                                                                           'text': txt[:40]}})
      if kind == 'framework':
        probes['framework_message_in_window'] = 1
      if m['level'] <= logging.DEBUG:
        probes['debug_message_recorded'] = 1
      if kind == 'own_plug' and 'ctor log' in (m['text'] or ''):
        probes['plug_ctor_log'] = 1
    # final content = the entries appended, in that order, unchanged
    final = list(run['rec'].log_records)
    appended = [em['entry'] for em in ems if em['entry'] is not None]
    if len(final) != len(appended) or any(a is not b for a, b in zip(final, appended)):
      viols.append({'clause': 'log_records_changed_after_append', 'details': {'test': run['name'], 'final': len(final),
                                                                             'appended': len(appended)}})
    # real-time order
    max_b = None
    for em, m in good:
      if max_b is not None and m['e'] is not None and m['e'] < max_b[0]:
        viols.append({'clause': 'messages_out_of_order', 'details': {
            'test': run['name'], 'earlier_message_recorded_later': (m['text'] or '')[:50], 'after': (max_b[1]['text'] or '')[:50]}})
        break
      if max_b is None or m['b'] > max_b[0]:
        max_b = (m['b'], m)
    # completeness
    for vid in sorted(lw.msgs):
      m = lw.msgs[vid]
      if m is None or m['e'] is None or run['i1'] is None or m['b'] < run['i1'] or m.get('interrupted'):
        continue
      if run['r0'] is not None and m['e'] > run['r0']:
        continue
      if not ref_passes(m['name'], uid):
        if owner_of(m['name']) not in (None, uid):
          probes['foreign_uid_message'] = 1
        continue
      if vid not in seen:
        during = any(o['r0'] is not None and o['uid'] != uid and o['r0'] <= m['e'] and (o['r1'] or 1e18) >= m['b']
                     for o in lw.runs.values())
        viols.append({'clause': 'message_missing_from_record', 'details': {
            'test': run['name'], 'kind': _kind_of(m, run), 'during_removal_of_another_runs_handler': during,
            'text': (m['text'] or '')[:60]}})
        break
    for sp in lw.suppressed:
      if run['i1'] is not None and sp['b'] > run['i1'] and (run['r0'] is None or sp['e'] < run['r0']) and \
          ref_passes(sp['name'], uid):
        viols.append({'clause': 'message_dropped_by_a_logger_level', 'details': {
            'test': run['name'], 'level': sp['level'], 'logger_kind': 'framework' if owner_of(sp['name']) is None else 'own',
            'msg': sp['msg']}})
        break
    if run['r0'] is None:
      viols.append({'clause': 'handler_never_removed', 'details': {'test': run['name']}})
  # probe: message overlapping another run's removal
  for m in lw.msgs.values():
    if m is None or m['e'] is None:
      continue
    for o in lw.runs.values():
      if o['r0'] is not None and o['r0'] <= m['e'] and (o['r1'] or 1e18) >= m['b']:
        probes['message_during_other_remove'] = 1
  return viols


def _shape_of_foreign(name, lw):
  seg = owner_of(name)
  for uid in lw.runs:
    if seg == uid[:-1]:
      return 'uid_minus_last_char'
    if seg == uid + '0':
      return 'uid_plus_char'
    if seg == uid:
      return 'uid_of_other_run'
  return 'unknown_uid:' + str(seg)[:20]


def _exec(sim, test, start, out, key, reps, ctx, xkw=None):
  out[key] = []
  for r in range(reps):
    if r:
      ctx.inv.clear()
      ctx.runif.clear()
      ctx.diag_calls.clear()
    sim.event('exec_call', key, r)
    try:
      out[key].append(('ret', test.execute(test_start=start, **(xkw or {}))))
    except core.SimAbort:
      raise
    except BaseException as e:  # pylint: disable=broad-except
      out[key].append(('exc', type(e).__name__))
      if isinstance(e, (core.SimShutdown,)):
        raise
    sim.event('exec_done', key, r)


def run_one(tape):
  from openhtf.core import test_descriptor
  from openhtf.util import configuration
  from openhtf.util import logs
  from workloads import bodies
  ls = _m['ls']
  CONF = configuration.CONF
  env.hygiene()
  two = tape.chance(750, 'two')
  spec_a = gen.Gen(tape, PROF_A, '').program()
  spec_b = gen.Gen(tape, PROF_B, 'B:').program() if two else None
  reps_a = 1 + tape.draw(2, 'repsA')
  reps_b = 1 + tape.draw(2, 'repsB') if two else 0
  faults = {}
  for spec in (spec_a, spec_b):
    if spec is None:
      continue
    run_mod._count_faults(spec, faults)  # pylint: disable=protected-access
    for i, c in enumerate(spec['plug_cfg']):
      if tape.chance(120, 'plug_ctor_raise'):
        c['ctor'] = 'raise'
        faults['plug_ctor_raises(configured)'] = faults.get('plug_ctor_raises(configured)', 0) + 1
      elif tape.chance(120, 'plug_td_raise'):
        c['teardown'] = 'raise'
        faults['plug_teardown_raise(configured)'] = faults.get('plug_teardown_raise(configured)', 0) + 1
      c['td_log'] = tape.chance(500, 'td_log')
  # outsider plan
  plan = []
  if tape.chance(800, 'outsider'):
    for _ in range(1 + tape.draw(8, 'nplan')):
      kind = tape.weighted([(3, 'framework'), (3, 'own'), (2, 'own_child'), (1, 'prefix'), (1, 'longer'), (1, 'bogus'),
                            (1, 'stdlib_child'), (1, 'bare_prefix')], 'okind')
      plan.append((kind, tape.draw(ls.N_SHAPES, 'oshape'), tape.pick([0, 0, 0.001, 0.05, 0.3], 'opause')))
  # profiling on, and the combined profile cannot be written (e.g. a missing directory): the
  # run still has to give up its log handler
  profile_fault = tape.chance(120, 'profile_write_fails')
  abort = tape.chance(200, 'abort')
  abort_step = 50 + tape.draw(6000, 'abort_step') if abort else None
  knobs = run_mod.draw_knobs(tape, 900.0)
  sim = core.Sim(tape, env.TRACE_PREFIXES, knobs)
  ctx_a = bodies.Ctx(sim, '')
  ctx_b = bodies.Ctx(sim, 'B:')
  bodies.CURRENT[''] = ctx_a
  bodies.CURRENT['B:'] = ctx_b
  sink_a, sink_b = [], []
  test_a, start_a, _ = build.build_test(ctx_a, spec_a, sink_a, tape.draw(4, 'styleA'))
  if two:
    test_b, start_b, _ = build.build_test(ctx_b, spec_b, sink_b, tape.draw(4, 'styleB'))
  conf = build.conf_values(spec_a)
  if conf:
    CONF.load(_override=True, **conf)
  htf_logger = logging.getLogger(logs.LOGGER_PREFIX)
  # the process' CLI verbosity (-v / -vv): the one-time logging configuration is redone per run
  # with a tape-chosen verbosity (console output stays suppressed through CLI_QUIET)
  verbosity = tape.pick([0, 0, 1, 2], 'cli_verbosity')
  saved_logging = (list(htf_logger.handlers), htf_logger.level, htf_logger.propagate, logs.CLI_LOGGING_VERBOSITY)
  htf_logger.handlers = []
  logs.CLI_LOGGING_VERBOSITY = verbosity
  logs.configure_logging.__wrapped__()
  probes_v = 'cli_verbosity_%d' % verbosity
  base_handlers = len(htf_logger.handlers)
  lw = LogWatch(sim)
  probes = {}
  out = {}
  done = {}
  post = {}
  failed = None
  lw.install()
  from openhtf.core import test_executor as _te
  saved_combine = _te.combine_profile_stats
  xkw_a = {}
  if profile_fault:
    def _cannot_write(stats, filename):
      raise OSError(2, 'No such file or directory', filename)
    _te.combine_profile_stats = _cannot_write
    xkw_a = {'profile_filename': '/nonexistent-dir/profile.out'}
    faults['profile_write_fails'] = 1
  try:
    with env.NoGC(10):
      sim.begin()
      try:
        threads = []
        if two:
          th = threading.Thread(target=_exec, args=(sim, test_b, start_b, out, 'B', reps_b, ctx_b), name='execB')
          th.daemon = True
          th.start()
          threads.append(th)
        if plan:
          th = threading.Thread(target=ls.outsider, args=(sim, plan, lw.live, done), name='outsider')
          th.daemon = True
          th.start()
          threads.append(th)
        if abort:
          gate = core.Gate()
          th = threading.Thread(target=bodies.operator, args=(ctx_a, test_a, gate, 1, 0), name='operator')
          th.daemon = True
          th.start()
          op_thread = th

          def fire(frame):
            sim.event('trigger')
            gate.open()
          sim.at_step(abort_step, fire)
          faults['operator_abort'] = 1
        _exec(sim, test_a, start_a, out, 'A', reps_a, ctx_a, xkw_a)
        sim.triggers.clear()
        sim.next_trigger = None
        done['stop'] = True
        for th in threads:
          th.join()
        if abort and not gate.opened:
          ctx_a.ev('abort_cancelled')
          # the operator thread stays parked on its gate; it is a daemon of this simulation
        elif abort:
          # its abort call (and the framework messages it logs) may still be in flight: "later
          # logging" below means logging that starts after everything of the runs has ended
          op_thread.join()
        # after the runs
        post['record_handlers'] = sum(1 for h in htf_logger.handlers if isinstance(h, logs.RecordHandler))
        post['handlers'] = len(htf_logger.handlers)
        post['instances'] = len(test_descriptor.Test.TEST_INSTANCES)
        lens = dict((uid, len(r['rec'].log_records)) for uid, r in lw.runs.items())
        n = 5000
        for uid in list(lw.runs):
          n += 1
          ls.emit(logs.get_record_logger_for(uid), n % ls.N_SHAPES, n)
          ls.emit(logs.get_record_logger_for(uid).getChild('phase').getChild('late'), (n + 3) % ls.N_SHAPES, n)
        ls.emit(logging.getLogger('openhtf.ext.station'), 2, n + 1)
        post['changed'] = [lw.runs[uid]['name'] for uid in lw.runs if len(lw.runs[uid]['rec'].log_records) != lens[uid]]
        sim.event('main_done')
      except core.SimAbort as e:
        failed = sim.failed or 'abort'
      finally:
        failed = failed or sim.failed
        failed_info = sim.failed_info
        sim.end()
  finally:
    lw.uninstall()
    _te.combine_profile_stats = saved_combine
    htf_logger.handlers = saved_logging[0]
    htf_logger.setLevel(saved_logging[1])
    htf_logger.propagate = saved_logging[2]
    logs.CLI_LOGGING_VERBOSITY = saved_logging[3]
    if conf:
      CONF.reset()
    bodies.CURRENT.pop('', None)
    bodies.CURRENT.pop('B:', None)
  viols = []
  abnormal = None
  if failed in ('deadlock', 'hang'):
    viols.append({'clause': 'logging_threads_stuck', 'details': {'info': (failed_info or '')[:200]}})
  elif failed:
    abnormal = '%s: %s' % (failed, failed_info)
  else:
    viols = evaluate(lw, probes)
    probes[probes_v] = 1
    if post.get('record_handlers'):
      viols.append({'clause': 'record_handler_left_after_runs', 'details': {'n': post['record_handlers']}})
    elif post.get('handlers') != base_handlers:
      viols.append({'clause': 'handlers_accumulate', 'details': {'before': base_handlers, 'after': post.get('handlers')}})
    if post.get('changed'):
      viols.append({'clause': 'finished_record_altered_by_later_logging', 'details': {'tests': post['changed']}})
    probes['post_run_logging'] = 1
    # probes on the shape of the run
    runs = [lw.runs[u] for u in lw.run_order]
    for i, a in enumerate(runs):
      for b in runs[i + 1:]:
        if a['name'] != b['name'] and a['r0'] is not None and b['i1'] is not None and b['i1'] < a['r0'] and \
           (b['r0'] is None or a['i1'] < b['r0']):
          probes['two_tests_overlapped'] = 1
        if a['name'] == b['name']:
          probes['consecutive_runs'] = 1
    for em in lw.emits:
      m = lw.msgs.get(em['vid'])
      if m and m['name'] == PREFIX + '.' + em['uid'] and (m['text'] or '').startswith(('xlog 10', 'status of')):
        probes['own_record_logger_from_outsider'] = 1
    if abort and any(e[3] == 'abort_ret' for e in sim.log):
      probes['aborted_run'] = 1
  own_in = fw_in = 0
  for em in lw.emits:
    m = lw.msgs.get(em['vid'])
    if m is None:
      continue
    if owner_of(m['name']) == em['uid']:
      own_in += 1
    elif owner_of(m['name']) is None:
      fw_in += 1
  sample = {'two': two, 'reps': [reps_a, reps_b], 'plan': [p[0] for p in plan][:8], 'abort': abort_step,
            'messages': len(lw.msgs), 'emits': len(lw.emits),
            'runs': [(lw.runs[u]['name'], len(lw.runs[u]['rec'].log_records)) for u in lw.run_order],
            'results': dict((k, [list(x) for x in v]) for k, v in out.items())}
  return {
      'violations': viols[:1], 'digest': sim.digest(), 'sched': sim.sched_digest(), 'nontrivial': own_in > 0 and fw_in > 0,
      'faults': faults, 'probes': probes, 'steps': sim.steps, 'switches': sim.switches, 'preempts': sim.preemptions,
      'sim_s': sim.now - core.T0, 'sample': sample, 'abnormal': abnormal,
      'poison': bool(failed) or bool(post.get('record_handlers')) or bool(post.get('instances')),
  }
