"""C04 - Operator abort: run ends ABORTED, nothing new starts, no deadlock"""
from wx import common
from wx import gen
from wx import oracles

PROPERTY = 'C04'
LEVEL = 'exploration'
TECHNIQUE = ('deterministic simulation of Test.execute() with an operator thread calling abort_from_sig_int() or a simulated SIGINT handled on the main thread at a seeded line step (one or two aborts); event-log invariants + bounded liveness + deadlock detector')
LEVEL_TEXT = ('seeded exploration of abort timing: the abort (operator thread, or SIGINT whose Python handler runs on the simulated main thread between two lines of execute() or inside its blocking join) lands at a tape-chosen workload event + line offset, with targeted pre-emption after abort/kill/thread-start events; one or two aborts. Invariants over the event log: execute() returns (or raises KeyboardInterrupt once) within the virtual liveness bound and the deadlock detector stays silent; after the abort call returned no test_start/setup/main body starts or restarts; single abort: the invocation sequence is one the reference model explains (teardown of entered groups ran) and every constructed plug got tearDown; outcome ABORTED when the abort returned before final teardown, never PASS before finalization; every callback called exactly once; second abort: no body starts afterwards; never two live bodies at once; nothing starts after finalization.')
LEVEL_NOTE = ('trusted: simkit (incl. its model of async kill delivery and SIGINT-on-main), wx/model.py abort-point semantics; open known findings are listed in known_findings.json with signatures')
DESIGN_REF = 'DESIGN.md section 4, C04'
RULE = ('one run = generated program (groups, repeats, subtests, test_start) + 1-2 aborts (thread / SIGINT) at a seeded position + schedule; non-trivial = an abort was delivered while the test was running; distinct = distinct event-log digests')
ASSUMPTIONS = common.W_EXEC_ASSUMPTIONS
COMPONENTS = common.W_EXEC_COMPONENTS
QUICK = {'budget_s': 40}
THOROUGH = {'budget_s': 480}
EXPECTED_PROBES = ['aborts_delivered', 'second_abort_delivered', 'abort_before_final_teardown', 'abort_during_plug_teardown_or_finalization', 'abort_after_finalization']

PROF = gen.profile(max_nodes=12, max_depth=3, w_phase=9, w_group=6, w_subtest=3, w_branch=1, w_ckpt_fail=1, w_ckpt_diag=0, p_fault_beh=250, p_timeout=40, p_dur=450, p_opts=250, abort=1000, abort2=300, sigint=350, p_plug=250, p_test_start=300, p_callbacks_raise=100, p_profile=350, p_bare=200)


def setup():
  common.setup()


def _pre(tape, spec):
  # 15% of the runs: the same Test object has completed an undisturbed execution before the
  # observed (aborted) one
  spec['prior_run'] = tape.chance(150, 'prior_run')


def run_one(tape):
  return common.run_with(tape, PROF, [oracles.c04], pre=_pre)
