"""C12 - Phase timeout and thread kill: no hang, no false timeout, kill confined to body"""
from wx import common
from wx import gen
from wx import oracles

PROPERTY = 'C12'
LEVEL = 'exploration'
TECHNIQUE = ('deterministic simulation with a virtual clock: phase durations placed around the deadline (killable, unkillable and late-waking bodies) at every position in a group, plus KillableThread micro-scenarios with kill() at seeded steps relative to start / body / handlers / exit; timing oracle exact in virtual time')
LEVEL_TEXT = ('seeded exploration in virtual time: (W-exec) phases with timeout_s and scripted durations far below, just below, at, just above and far above the deadline, hanging killable / unkillable bodies that later attach, log and set measurements, at every position of a group; oracle: a body that ended before its deadline is never TIMEOUT and keeps its own result, a body still running one join interval past the deadline is TIMEOUT and the executor proceeds by deadline + 3 s, outcome and the teardown / later invocations equal the reference model, attachments and phase log lines are attributed to the phase that produced them; (W-kill) a KillableThread with scripted body and 1-2 killers at tape-chosen steps: kill before start => body never runs, kill after the body returned => no exception anywhere, kill while running => ThreadTerminationError in that thread only. Durations inside [deadline, deadline + 3 s) are accepted either way (the executor polls every 3 s); sampling, not exhaustive.')
LEVEL_NOTE = ('trusted: simkit virtual clock (code costs zero time), async-kill delivery model (next traced line or blocking primitive of the target, optional delay), wx/model.py')
DESIGN_REF = 'DESIGN.md section 4, C12'
RULE = ('one run = (70%%) a generated program dense in timeouts and hanging bodies or (30%%) a KillableThread micro-scenario, + schedule; non-trivial = a timeout fired or a kill was issued; distinct = distinct event-log digests')
ASSUMPTIONS = common.W_EXEC_ASSUMPTIONS
COMPONENTS = common.W_EXEC_COMPONENTS
QUICK = {'budget_s': 40}
THOROUGH = {'budget_s': 480}
EXPECTED_PROBES = ['body_ended_before_deadline', 'body_running_past_deadline', 'ended_in_poll_window', 'late_action_by_abandoned_body']

PROF = gen.profile(max_nodes=8, max_depth=3, w_phase=10, w_group=5, w_subtest=2, w_branch=0, w_ckpt_fail=0, w_ckpt_diag=0, p_fault_beh=150, p_timeout=500, p_ambiguous_dur=350, late=600, p_dur=300, p_attach=400, p_logs=500, p_plug=150)


def setup():
  common.setup()


def run_one(tape):
  return common.run_with(tape, PROF, [oracles.c12])
