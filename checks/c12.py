"""C12 - Phase timeout and thread kill: no hang, no false timeout, kill confined to body"""
from wx import common
from wx import gen
from wx import oracles

PROPERTY = 'C12'
LEVEL = 'exploration'
TECHNIQUE = ('deterministic simulation with a virtual clock: phase durations placed around the deadline (killable, unkillable and late-waking bodies) at every position in a group, plus KillableThread micro-scenarios with kill() at seeded steps relative to start / body / handlers / exit; timing oracle exact in virtual time')
LEVEL_TEXT = ('seeded exploration in virtual time: (W-exec) phases with timeout_s and scripted durations far below, just below, at, just above and far above the deadline, hanging killable / unkillable bodies that later attach, log and set measurements, at every position of a group; oracle: a body that ended before its deadline is never TIMEOUT and keeps its own result, a body still running one join interval past the deadline is TIMEOUT and the executor proceeds by deadline + 3 s, outcome and the teardown / later invocations equal the reference model, attachments and phase log lines are attributed to the phase that produced them; (W-kill) a KillableThread with scripted body and 1-2 killers at tape-chosen steps: kill before start => body never runs, kill after the body returned => no exception anywhere, kill while running => ThreadTerminationError in that thread only. Durations inside [deadline, deadline + 3 s) are accepted either way (the executor polls every 3 s); sampling, not exhaustive.')
LEVEL_NOTE = ('trusted: simkit virtual clock (code costs zero time), async-kill delivery model (next traced line or blocking primitive of the target, optional delay), wx/model.py')
DESIGN_REF = 'DESIGN.md section 4, C12'
RULE = ('one run = (70%%) a generated program dense in timeouts and hanging bodies or (30%%) a KillableThread micro-scenario, + schedule; non-trivial = a timeout fired or a kill was issued; distinct = distinct event-log digests')
ASSUMPTIONS = common.W_EXEC_ASSUMPTIONS
COMPONENTS = common.W_EXEC_COMPONENTS
QUICK = {'budget_s': 40}
THOROUGH = {'budget_s': 480}
EXPECTED_PROBES = ['body_ended_before_deadline', 'body_running_past_deadline', 'ended_in_poll_window', 'late_action_by_abandoned_body']

PROF = gen.profile(max_nodes=8, max_depth=3, w_phase=10, w_group=5, w_subtest=2, w_branch=0, w_ckpt_fail=0, w_ckpt_diag=0, p_fault_beh=150, p_timeout=500, p_ambiguous_dur=350, late=600, p_dur=300, p_attach=400, p_logs=500, p_plug=150, p_profile=200, p_monitor=200, p_monitor_hang=250)


EXPECTED_PROBES += ['kill_before_start', 'kill_during_body', 'kill_after_body', 'kill_in_start_window']


def setup():
  common.setup()
  import workloads.wkill  # noqa: F401  pylint: disable=unused-import,g-import-not-at-top


def run_one(tape):
  if tape.weighted([(7, 'exec'), (3, 'kill')], 'mode') == 'kill':
    return run_kill(tape)
  return common.run_with(tape, PROF, [oracles.c12], pre=_slow_logging)


def _slow_logging(tape, spec):
  # a user log handler that takes (virtual) time: deadlines can pass inside framework code
  if tape.chance(200, 'slowlog'):
    spec['slow_log_s'] = tape.pick([0.3, 1.1, 2.0], 'slowlog_s')


def run_kill(tape):
  import threading
  from simkit import core, env
  from workloads import wkill
  env.hygiene()
  script = {'body': tape.weighted([(3, 'sleep'), (3, 'busy'), (2, 'quick'), (1, 'raise')], 'body'),
            'n': tape.pick([1, 3, 12, 40], 'n'), 'd': tape.pick([0.01, 0.1, 1.0], 'd'),
            'hn': tape.pick([2, 6, 20], 'hn'), 'hsleep': tape.pick([0, 0, 0.05], 'hsleep')}
  n_k = 1 + tape.draw(2, 'nkillers')
  when = [tape.weighted([(2, 'before_start'), (4, 'step'), (2, 'delay')], 'when') for _ in range(n_k)]
  steps = [tape.draw(tape.pick([12, 40, 120, 400], 'range') + 1, 'kstep') for _ in range(n_k)]
  delays = [tape.pick([0, 0.05, 0.2, 1.5, 5.0], 'kdelay') for _ in range(n_k)]
  knobs = core.Knobs(p_sync=tape.pick([0, 100, 300], 'p_sync'), gap_mean=tape.pick([0, 3, 8, 25], 'gap'),
                     hot_span=tape.pick([0, 4, 12], 'hot'), max_steps=300000, max_time=500.0,
                     async_delay_max=0)
  viols = []
  probes = {}
  with env.NoGC(25):
    sim = core.Sim(tape, env.TRACE_PREFIXES, knobs)
    sim.begin()
    try:
      v = wkill.Victim(sim, script)
      gates = [core.Gate() for _ in range(n_k)]
      ks = []
      for i in range(n_k):
        t = threading.Thread(target=wkill.killer, args=(sim, v, gates[i], i, delays[i] if when[i] == 'delay' else 0),
                             name='killer%d' % i)
        t.daemon = True
        t.start()
        ks.append(t)
      by = threading.Thread(target=wkill.bystander, args=(sim, 30), name='bystander')
      by.daemon = True
      by.start()
      for i in range(n_k):
        if when[i] == 'before_start':
          gates[i].open(prefer=False)
      pre = [ks[i] for i in range(n_k) if when[i] == 'before_start' and tape.chance(700, 'join_first')]
      for t in pre:
        t.join()
      for i in range(n_k):
        if when[i] == 'step':
          sim.at_step(sim.steps + 1 + steps[i], (lambda g: (lambda frame: g.open()))(gates[i]))
        elif when[i] == 'delay':
          gates[i].open(prefer=False)
      sim.event('start_call')
      v.start()
      v.join(60.0)
      sim.event('victim_joined', v.is_alive())
      for g in gates:
        g.open(prefer=False)
      for t in ks:
        t.join(30.0)
      by.join(30.0)
    except core.SimAbort:
      pass
    finally:
      failed = sim.failed
      failed_info = sim.failed_info
      sim.end()
  log = sim.log
  def first(kind):
    for e in log:
      if e[3] == kind:
        return e[0]
    return None
  body_start = first('body_start')
  # the body has returned for sure once one of the handlers has started
  hs = [x for x in (first('handler_exception_start'), first('handler_finished_start')) if x is not None]
  body_over = min(hs) if hs else None
  kill_rets = [e for e in log if e[3] == 'kill_ret']
  kill_calls = [e for e in log if e[3] == 'kill_call']
  started = first('start_call')
  # kill requested (returned) before the body started => the body never runs
  for e in kill_rets:
    if body_start is None or e[0] < body_start:
      if started is None or e[0] < started:
        probes['kill_before_start'] = probes.get('kill_before_start', 0) + 1
      else:
        probes['kill_in_start_window'] = probes.get('kill_in_start_window', 0) + 1
      if body_start is not None and e[0] < body_start:
        before_thread_start = started is None or e[0] < started
        # in the window between start() and the body the kill is either honoured before the
        # body begins or delivered as ThreadTerminationError inside it
        delivered_in_body = any((x[3] == 'body_exc' and x[4] == 'ThreadTerminationError') or
                                (x[3] == 'async_exc_delivered' and x[5] == '_thread_proc') for x in log)
        if before_thread_start or not delivered_in_body:
          viols.append({'clause': 'body_ran_although_killed_before_it_started',
                        'details': {'kill_returned_before_thread_start': before_thread_start,
                                    'body_completed': first('body_end') is not None}})
          break
  # kill requested after the body returned => no exception anywhere
  if body_over is not None:
    late_calls = [e for e in kill_calls if e[0] > body_over]
    early_calls = [e for e in kill_calls if e[0] < body_over]
    if late_calls:
      probes['kill_after_body'] = probes.get('kill_after_body', 0) + 1
    if late_calls and not early_calls:
      bad = [e for e in log if e[3] in ('exc_in_handler', 'async_exc_delivered', 'kill_raised') and e[0] > body_over]
      if bad:
        viols.append({'clause': 'kill_after_body_had_an_effect', 'details': {'event': list(bad[0][3:6])}})
    if early_calls and body_start is not None and any(e[0] > body_start for e in early_calls):
      probes['kill_during_body'] = probes.get('kill_during_body', 0) + 1
  # a kill raises ThreadTerminationError in the victim only
  if any(e[3] == 'bystander_exc' for e in log):
    viols.append({'clause': 'kill_surfaced_in_other_thread', 'details': {}})
  for e in log:
    if e[3] == 'kill_raised':
      viols.append({'clause': 'kill_call_raised', 'details': {'exc': e[5], 'msg': e[6]}})
      break
    if e[3] == 'exc_in_handler':
      # a kill issued while the body ran can be delivered after it returned (the request is
      # asynchronous); only kills *requested* after the body are required to have no effect
      probes['kill_requested_in_body_delivered_in_handler'] = 1
    if e[3] == 'body_exc' and e[4] not in ('ThreadTerminationError', 'ValueError'):
      viols.append({'clause': 'foreign_exception_in_body', 'details': {'exc': e[4]}})
      break
  if failed in ('deadlock', 'hang'):
    viols.append({'clause': 'kill_scenario_stuck', 'details': {'info': (failed_info or '')[:200]}})
  return {
      'violations': viols, 'digest': sim.digest(), 'sched': sim.sched_digest(),
      'nontrivial': bool(kill_calls), 'faults': {'kill_calls': len(kill_calls)}, 'probes': probes,
      'steps': sim.steps, 'switches': sim.switches, 'preempts': sim.preemptions, 'sim_s': sim.now - core.T0,
      'sample': {'mode': 'kill', 'script': script, 'when': when, 'steps': steps, 'delays': delays,
                 'events': [list(e[2:]) for e in log[:30]]},
      'abnormal': ('%s: %s' % (failed, failed_info)) if failed in ('steplimit', 'unwind') else None,
      'poison': bool(failed),
  }
