"""C17 - file output is atomic."""
import json

from simkit import core
from simkit import env
from simkit import simfs
from wx import common
from wx import gen
from wx import run as run_mod

PROPERTY = 'C17'
LEVEL = 'fault_enumeration'
TECHNIQUE = ('simulated file system with numbered operations under the real OutputToFile / OutputToJSON / '
             'atomic_write code: every fault position of one callback invocation (serializer raise after k chunks, '
             'each write/flush/close/rename/remove failing, process kill at each FS step with full / none / torn '
             'application) is enumerated and the destination checked after each')
LEVEL_TEXT = ('fault enumeration per generated record shape: a test record is produced by a simulated run; for each of '
              'OutputToJSON(filename pattern), OutputToFile(filename pattern) and util.atomic_write, over destinations '
              'that are absent or hold a previous complete record, a dry run numbers the file-system operations and '
              'serializer chunks, then EVERY fault position is injected in turn: the serializer raising after k chunks '
              '(all k up to 40, sampled beyond), each FS operation failing with an OSError (writes possibly partial), '
              'and a process kill before / after / in the middle of each FS operation (after a kill every later '
              'operation raises without touching the disk image, so finally-blocks cannot repair it). After each, the '
              'destination must be absent, byte-equal to its previous content, or byte-equal to the complete new '
              'serialization; on success it must be exactly the new serialization under the independently formatted '
              'file name. Exhaustive per shape over the modelled operations; shapes are sampled.')
LEVEL_NOTE = ('trusted: SimFS (user-space buffering, atomic same-FS rename, data handed to the OS survives a process '
              'kill; power loss is not modelled - the property speaks of process kill), the serializer itself (C10)')
DESIGN_REF = 'DESIGN.md section 4, C17'
RULE = ('one run = one record shape x 3 sinks x 2 destination states, all fault positions enumerated; evaluations in '
        'the evidence counts single fault scenarios; non-trivial = a fault actually fired inside the callback; distinct = '
        'distinct (sink, destination state, fault kind, operation, position) tuples per shape digest')
ASSUMPTIONS = ['staging directory and destination are on one file system (rename is atomic)',
               'a process kill loses user-space buffers only; a torn write leaves a prefix',
               'file-system calls other than those the modules use today are not modelled and fail loudly']
COMPONENTS = {
    'real': ['openhtf.output.callbacks.OutputToFile / Atomic', 'openhtf.output.callbacks.json_factory.OutputToJSON',
             'openhtf.util.atomic_write.atomic_write', 'json.JSONEncoder.iterencode', 'the TestRecord (from a simulated run)'],
    'simulated': ['tempfile / shutil / os / open as named inside those modules (SimFS)'],
}
WARMUP = 12
QUICK = {'budget_s': 40}
THOROUGH = {'budget_s': 480}
EXPECTED_PROBES = ['fault_is_SerializerError', 'fault_is_SerializerInterrupt', 'serializer_raise', 'write_error', 'close_error', 'rename_error', 'crash_before_rename',
                   'crash_after_rename', 'crash_torn_write', 'success']

PROF = gen.profile(max_nodes=5, max_depth=2, w_group=2, w_subtest=2, w_branch=0, w_ckpt_fail=0, w_ckpt_diag=0,
                   p_attach=500, p_logs=500, p_meas=500, p_fault_beh=200, p_diag=200, p_test_start=400,
                   p_dut_percent=300)

_m = {}


def setup():
  common.setup()
  from openhtf.output import callbacks
  from openhtf.output.callbacks import json_factory
  from openhtf.util import atomic_write
  _m.update(callbacks=callbacks, json_factory=json_factory, atomic_write=atomic_write)


class _SerializerError(Exception):
  pass


class _SerializerInterrupt(BaseException):
  """Not an Exception subclass: stands for KeyboardInterrupt / SystemExit / a thread kill
  arriving while the record is being serialized or written."""


_FAULT = [_SerializerError]


def _SerializerFault(msg):   # pylint: disable=invalid-name
  return _FAULT[0](msg)


def _install(fs):
  import os as real_os
  cb, aw = _m['callbacks'], _m['atomic_write']
  saved = (cb.tempfile, cb.shutil, aw.tempfile, aw.os, aw.__dict__.get('open'), cb.__dict__.get('os'))
  if 'os' in cb.__dict__:
    cb.os = simfs.OsFacade(fs, real_os)
  cb.tempfile = simfs.TempfileFacade(fs)
  cb.shutil = simfs.ShutilFacade(fs)
  aw.tempfile = simfs.TempfileFacade(fs)
  aw.os = simfs.OsFacade(fs, real_os)
  aw.open = fs.open
  return saved


def _restore(saved):
  cb, aw = _m['callbacks'], _m['atomic_write']
  cb.tempfile, cb.shutil, aw.tempfile, aw.os = saved[:4]
  if saved[5] is not None:
    cb.os = saved[5]
  if saved[4] is None:
    aw.__dict__.pop('open', None)
  else:
    aw.open = saved[4]


def _sinks(rec, tape):
  """[(name, run(fs, ser_fault_at) -> None, expected bytes, expected file name)]"""
  cb, jf, aw = _m['callbacks'], _m['json_factory'], _m['atomic_write']
  out = []
  pat = tape.pick(['/out/{dut_id}.{metadata[test_name]}.json', '/out/%(dut_id)s.%(start_time_millis)s',
                   'callable'], 'pattern')
  if pat == 'callable':
    pattern = lambda **kw: '/out/cb_%s_%s' % (kw['dut_id'], kw['outcome'])
    name = '/out/cb_%s_%s' % (rec.dut_id, rec.outcome.name)
  elif '{' in pat:
    pattern = pat
    name = '/out/%s.%s.json' % (rec.dut_id, rec.metadata['test_name'])
  else:
    pattern = pat
    name = '/out/%s.%s' % (rec.dut_id, rec.start_time_millis)
  inline = tape.chance(500, 'inline')
  indent = tape.pick([None, 2], 'indent')
  kw = {} if indent is None else {'indent': indent}

  def json_run(fs, fault_at):
    class Faulty(jf.OutputToJSON):
      def serialize_test_record(self, test_rec):
        for i, chunk in enumerate(jf.OutputToJSON.serialize_test_record(self, test_rec)):
          if fault_at is not None and i == fault_at:
            raise _SerializerFault('after %d chunks' % i)
          yield chunk
    Faulty(pattern, inline_attachments=inline, **kw)(rec)

  expected = ''.join(jf.OutputToJSON('/x', inline_attachments=inline, **kw).serialize_test_record(rec)).encode()
  nchunks = sum(1 for _ in jf.OutputToJSON('/x', inline_attachments=inline, **kw).serialize_test_record(rec))
  out.append(('OutputToJSON', json_run, expected, name, nchunks))

  # the documented extension point of OutputToFile: a serializer returning str / bytes / chunks
  mode = tape.pick(['bytes', 'str', 'chunks'], 'ser_mode')
  payload = json.dumps({'dut': rec.dut_id, 'outcome': rec.outcome.name, 'n': len(rec.phases)}).encode() * 7

  def file_run(fs, fault_at):
    class Ser(cb.OutputToFile):
      @staticmethod
      def serialize_test_record(test_rec):
        if mode == 'bytes':
          if fault_at is not None:
            raise _SerializerFault('serializer failed')
          return payload
        if mode == 'str':
          if fault_at is not None:
            raise _SerializerFault('serializer failed')
          return payload.decode()
        def gen_():
          for i in range(0, len(payload), 16):
            if fault_at is not None and i // 16 == fault_at:
              raise _SerializerFault('after %d chunks' % (i // 16))
            yield payload[i:i + 16]
        return gen_()
    Ser(pattern)(rec)

  out.append(('OutputToFile:' + mode, file_run, payload, name,
              (len(payload) + 15) // 16 if mode == 'chunks' else 1))

  filesync = tape.chance(500, 'filesync')
  chunks = [('line %d of %s\n' % (i, rec.dut_id)) for i in range(1 + tape.draw(6, 'aw_chunks'))]

  def aw_run(fs, fault_at):
    with aw.atomic_write('/out/aw.txt', filesync=filesync) as f:
      for i, c in enumerate(chunks):
        if fault_at is not None and i == fault_at:
          raise _SerializerFault('body failed after %d chunks' % i)
        f.write(c)

  out.append(('atomic_write', aw_run, ''.join(chunks).encode(), '/out/aw.txt', len(chunks)))
  return out


def run_one(tape):
  g = gen.Gen(tape, PROF)
  spec = g.program()
  obs = run_mod.run_spec(tape, spec)
  viols = []
  probes = {}
  faults = {}
  evals = 0
  distinct = set()
  samples = []
  if obs.sink and obs.failed is None:
    rec = obs.sink[0][1]
    bufsize = tape.pick([16, 64, 1024, 8192], 'bufsize')
    _FAULT[0] = tape.pick([_SerializerError, _SerializerInterrupt], 'fault_class')
    probes['fault_is_' + _FAULT[0].__name__.lstrip('_')] = 1
    for (sname, runner, expected, fname, nchunks) in _sinks(rec, tape):
      for prev in (None, b'PREVIOUS COMPLETE RECORD\n'):
        # dry run: number the FS operations, check the success case
        def attempt(fault, ser_at):
          fs = simfs.SimFS(bufsize)
          if prev is not None:
            fs.files[fname] = bytearray(prev)
          fs.fault = fault
          saved = _install(fs)
          exc = None
          try:
            runner(fs, ser_at)
          except simfs.SimCrash:
            exc = 'crash'
          except BaseException as e:  # pylint: disable=broad-except
            exc = type(e).__name__
          finally:
            _restore(saved)
          return fs, exc

        fs0, exc0 = attempt(None, None)
        evals += 1
        nsteps = fs0.step
        got = fs0.files.get(fname)
        if exc0 is not None or got is None or bytes(got) != expected:
          viols.append({'clause': 'success_case_wrong', 'details': {
              'sink': sname, 'exception': exc0, 'dest_present': got is not None,
              'dest_len': None if got is None else len(got), 'expected_len': len(expected),
              'names': sorted(fs0.files)[:4], 'expected_name': fname}})
          continue
        probes['success'] = probes.get('success', 0) + 1
        scenarios = []
        ks = list(range(nchunks)) if nchunks <= 40 else sorted(set(
            [0, 1, 2, nchunks - 1, nchunks - 2] + [tape.draw(nchunks, 'serk') for _ in range(30)]))
        for k in ks:
          scenarios.append((None, k))
        for step in range(1, nsteps + 1):
          for kind in ('error', 'crash_before', 'crash_after', 'crash_torn'):
            scenarios.append((simfs.Fault(step, kind, torn=tape.pick([0.0, 0.5, 0.99], 'torn')), None))
        for (fault, ser_at) in scenarios:
          fs, exc = attempt(fault, ser_at)
          evals += 1
          dest = fs.files.get(fname)
          ok = dest is None and prev is None or (dest is not None and (bytes(dest) == expected or (
              prev is not None and bytes(dest) == prev)))
          if dest is None and prev is not None:
            ok = True   # "does not exist" is allowed by the statement
          op = fs.fired[1] if fs.fired else None
          if fault is None:
            key = 'serializer_raise'
          elif fs.fired is None:
            key = 'fault_not_reached'
          elif fault.kind == 'error':
            key = {'write': 'write_error', 'close': 'close_error', 'rename': 'rename_error'}.get(op, op + '_error')
          else:
            after_rename = any(o[1] == 'rename' and o[0] < fs.fired[0] + (1 if fault.kind != 'crash_before' else 0)
                               for o in fs.ops)
            key = 'crash_torn_write' if (fault.kind == 'crash_torn' and op == 'write') else (
                'crash_after_rename' if after_rename else 'crash_before_rename')
          probes[key] = probes.get(key, 0) + 1
          faults[key] = faults.get(key, 0) + 1
          distinct.add((sname.split(':')[0], prev is None, key, op, ser_at if fault is None else fault.step))
          if exc is None and fault is not None and fs.fired is not None and fault.kind == 'error' and dest is not None \
              and bytes(dest) != expected and op in ('write', 'close', 'rename', 'create_temp', 'open_w', 'fsync'):
            ok = False
          if exc is None and (dest is None or bytes(dest) != expected) and fs.fired is None and fault is None:
            ok = False
          if not ok:
            state = 'truncated' if dest is not None and expected.startswith(bytes(dest)) else (
                'absent' if dest is None else 'garbage')
            viols.append({'clause': 'destination_not_atomic', 'details': {
                'sink': sname.split(':')[0], 'ser_mode': sname.split(':')[1] if ':' in sname else None,
                'fault': 'serializer_raise' if fault is None else fault.kind,
                'op': op, 'dest_state': state, 'dest_len': None if dest is None else len(dest),
                'expected_len': len(expected), 'had_previous': prev is not None,
                'exception_seen': exc, 'position': ser_at if fault is None else fault.step, 'of': nchunks if fault is None else nsteps}})
            break
          if len(samples) < 3 and fs.fired:
            samples.append({'sink': sname, 'fault': fault.kind if fault else 'ser', 'op': op, 'step': fs.fired[0],
                            'exception': exc, 'dest': 'absent' if dest is None else ('new' if bytes(dest) == expected else 'previous')})
  res = run_mod.result_from(obs, viols, probes, bool(faults), {'fault_scenarios': evals, 'samples': samples})
  res['faults'] = faults
  res['counts'] = {'fault_scenarios': evals, 'distinct_fault_positions': len(distinct)}
  return res


def post_search(agg):
  return {'note': 'evaluations counts simulated runs (record shapes); reach_probes counts single fault scenarios by class'}
