"""C20 - configuration: flag > loaded > default, consistent views, exact restore."""
import hashlib
import io

from simkit import env

PROPERTY = 'C20'
LEVEL = 'exploration'
TECHNIQUE = ('seeded operation-and-fault histories on a fresh _Configuration (declare / load / load_from_dict / '
             'load_from_file incl. malformed, non-dict and failing streams / flag values / reset / save_and_restore with '
             'raising functions) checked step by step against a reference dictionary model')
LEVEL_TEXT = ('seeded histories (up to 25 operations over a key universe of 6 valid and 3 invalid names, values of several '
              'types incl. None, 0, False, lists, dicts) against a ~60-line reference model: after every operation, for '
              'every key, item access, attribute access, the declared value holder, "key in conf" and the _asdict() '
              'snapshot must agree with the model (flag > loaded > default > UnsetKeyError; undeclared keys unreadable and '
              'not loaded unless explicitly allowed; _override=False keeps earlier loads; reset drops loaded values but not '
              'flags; save_and_restore restores exactly the loaded values present at call time even if the wrapped function '
              'raises; failed loads change nothing; no redeclaration, no attribute assignment). No threads, clock or peer: '
              'the scheduler contributes nothing, the evidence is "seeded histories x faults against a model".')
LEVEL_NOTE = 'trusted: the reference model in this file; PyYAML'
DESIGN_REF = 'DESIGN.md section 4, C20'
RULE = ('one run = one history of 3-25 operations; non-trivial = the history contains a load and a read of a key with more '
        'than one value source, or a fault (malformed / non-dict / failing stream, raising wrapped function); distinct = '
        'distinct history digests')
ASSUMPTIONS = ['composite operations are not required to be atomic against concurrent readers (not claimed)']
COMPONENTS = {'real': ['openhtf.util.configuration._Configuration / Declaration / _ConfigValueHolder', 'yaml.safe_load'],
              'simulated': ['configuration file streams (StringIO / failing stream)'], 'reference_model': 'in checks/c20.py'}
WARMUP = 3
QUICK = {'budget_s': 30}
THOROUGH = {'budget_s': 300}
EXPECTED_PROBES = ['flag_over_loaded', 'loaded_over_default', 'override_false_kept', 'undeclared_ignored',
                   'undeclared_allowed_then_declared', 'reset', 'restore_after_raise', 'malformed_yaml', 'non_dict_yaml',
                   'failing_stream', 'redeclare_refused', 'none_value_loaded', 'wrapped_called_later', 'snapshot_in_test_metadata']

_m = {}
KEYS = ['alpha', 'beta', 'gamma', 'delta', 'eps', 'zeta']
BAD_KEYS = ['Upper', '_under', '']
VALUES = [1, 0, None, 'text', [1, 2], {'a': 1}, True, False, 2.5, '']
NOT_SET = object()


import enum as _enum


class Mode(_enum.Enum):
  FAST = 'fast'


# values that are not base types: a snapshot that is "converted" instead of copied differs
META_VALUES = [float('inf'), Mode.FAST, frozenset([1, 2]), (1, 2), 'text', 5, None, [1, {'k': (3, 4)}]]
META_KEYS = ['c20_meta_a', 'c20_meta_b']


def setup():
  env.import_openhtf()
  from openhtf.util import configuration
  _m['cfg'] = configuration
  from workloads import logshapes
  _m['ls'] = logshapes
  # (declarations on the process-wide CONF cannot be undone: made once, here)
  for k in META_KEYS:
    if k not in configuration.CONF._declarations:   # pylint: disable=protected-access
      configuration.CONF.declare(k, 'C20 snapshot key', default_value='default-' + k)


def _snapshot_in_metadata(tape, viols, probes):
  """The _asdict() snapshot stored in a test record's metadata agrees with the other views."""
  import openhtf as htf
  CONF = _m['cfg'].CONF
  loaded = {}
  for k in META_KEYS:
    if tape.chance(700, 'meta_load'):
      loaded[k] = tape.pick(META_VALUES, 'meta_val')
  try:
    if loaded:
      CONF.load(_override=True, **loaded)
    recs = []
    t = htf.Test(_m['ls'].c20_noop_phase, test_name='c20snap')
    t.add_output_callbacks(recs.append)
    t.execute(test_start=None)
    probes['snapshot_in_test_metadata'] = 1
    if not recs:
      viols.append({'clause': 'snapshot_run_produced_no_record', 'details': {}})
      return
    snap = recs[0].metadata.get('config') or {}
    for k in META_KEYS:
      want = CONF[k]
      if k not in snap or type(snap[k]) is not type(want) or not _same(snap[k], want):
        viols.append({'clause': 'metadata_snapshot_differs_from_reads', 'details': {
            'key': k, 'snapshot': repr(snap.get(k, '<absent>'))[:50], 'read': repr(want)[:50]}})
        return
      if getattr(CONF, k) != want and not (want != want):
        viols.append({'clause': 'attribute_differs_from_item', 'details': {'key': k}})
        return
  finally:
    CONF.reset()


class FailingStream(object):

  def read(self):
    raise IOError('disk on fire')


class Model(object):

  def __init__(self):
    self.decl = {}
    self.flags = {}
    self.loaded = {}

  def read(self, k):
    if k not in self.decl:
      return ('exc', 'UndeclaredKeyError')
    if k in self.flags:
      return ('val', self.flags[k])
    if k in self.loaded:
      return ('val', self.loaded[k])
    if self.decl[k] is not NOT_SET:
      return ('val', self.decl[k])
    return ('exc', 'UnsetKeyError')

  def contains(self, k):
    return k in self.decl and (self.decl[k] is not NOT_SET or k in self.loaded or k in self.flags)

  def load(self, d, override=True, allow_undeclared=False):
    for k, v in d.items():
      if k not in self.decl and not allow_undeclared:
        continue
      if k in self.loaded and not override:
        continue
      self.loaded[k] = v


def _same(a, b):
  return type(a) is type(b) and a == b


def run_one(tape):
  cfg = _m['cfg']
  conf = cfg._Configuration()   # pylint: disable=protected-access
  model = Model()
  # the fresh object sees the module's ARG_PARSER defaults only
  holders = {}
  viols = []
  probes = {}
  faults = {}
  hist = []
  pending = []   # functions wrapped with save_and_restore earlier in the history
  nops = 3 + tape.draw(23, 'nops')

  def check(after):
    for k in KEYS:
      want = model.read(k)
      for how in ('item', 'attr', 'holder'):
        if how == 'holder' and k not in holders:
          continue
        try:
          if how == 'item':
            got = ('val', conf[k])
          elif how == 'attr':
            got = ('val', getattr(conf, k))
          else:
            got = ('val', holders[k].value)
        except Exception as e:  # pylint: disable=broad-except
          got = ('exc', type(e).__name__)
        ok = got[0] == want[0] and (_same(got[1], want[1]) if got[0] == 'val' else got[1] == want[1])
        if not ok:
          viols.append({'clause': 'read_differs_from_model', 'details': {
              'key': k, 'via': how, 'got': repr(got)[:60], 'want': repr(want)[:60], 'after': after,
              'declared': k in model.decl, 'flag': k in model.flags, 'loaded': k in model.loaded}})
          return False
      if (k in conf) != model.contains(k):
        viols.append({'clause': 'contains_differs_from_model', 'details': {'key': k, 'got': k in conf, 'after': after}})
        return False
    snap = conf._asdict()   # pylint: disable=protected-access
    for k in KEYS:
      if k not in model.decl:
        continue
      want = model.read(k)
      if want[0] == 'val':
        if k not in snap or not _same(snap[k], want[1]):
          viols.append({'clause': 'asdict_differs_from_reads', 'details': {'key': k, 'snapshot': repr(snap.get(k, '<absent>'))[:40],
                                                                         'want': repr(want[1])[:40], 'after': after}})
          return False
      elif k in snap:
        viols.append({'clause': 'asdict_has_unset_key', 'details': {'key': k, 'after': after}})
        return False
    for k in BAD_KEYS[:2]:
      try:
        conf[k]
        viols.append({'clause': 'invalid_key_readable', 'details': {'key': k}})
        return False
      except Exception:  # pylint: disable=broad-except
        pass
    return True

  for i in range(nops):
    op = tape.weighted([(5, 'declare'), (5, 'load'), (3, 'load_file'), (2, 'flags'), (2, 'reset'), (3, 'save_restore'),
                        (1, 'setattr'), (1, 'declare_bad'), (2, 'call_wrapped')], 'op')
    desc = op
    rec = None
    if op == 'call_wrapped':
      # call (again) a function that was wrapped with save_and_restore earlier in the history
      if not pending:
        continue
      rec = pending[tape.draw(len(pending), 'which_wrapped')]
      probes['wrapped_called_later'] = 1
      op = 'save_restore'
    if op == 'declare':
      k = tape.pick(KEYS, 'key')
      has_def = tape.chance(500, 'has_default')
      dv = tape.pick(VALUES, 'dval')
      desc = 'declare(%s%s)' % (k, ', default=%r' % (dv,) if has_def else '')
      try:
        h = conf.declare(k, 'desc', **({'default_value': dv} if has_def else {}))
        if k in model.decl:
          viols.append({'clause': 'redeclaration_accepted', 'details': {'key': k}})
          break
        if k in model.loaded:
          probes['undeclared_allowed_then_declared'] = 1
        model.decl[k] = dv if has_def else NOT_SET
        holders[k] = h
      except cfg.KeyAlreadyDeclaredError:
        probes['redeclare_refused'] = 1
        if k not in model.decl:
          viols.append({'clause': 'declare_refused', 'details': {'key': k}})
          break
    elif op == 'declare_bad':
      k = tape.pick(BAD_KEYS, 'badkey')
      desc = 'declare(%r)' % k
      try:
        conf.declare(k)
        viols.append({'clause': 'invalid_key_declared', 'details': {'key': k}})
        break
      except cfg.InvalidKeyError:
        pass
    elif op == 'load':
      n = 1 + tape.draw(3, 'nload')
      d = {}
      for _ in range(n):
        d[tape.pick(KEYS, 'key')] = tape.pick(VALUES, 'val')
      override = not tape.chance(300, 'no_override')
      allow = tape.chance(200, 'allow_undeclared')
      via = tape.pick(['load', 'load_from_dict'], 'via')
      desc = '%s(%r, _override=%s, _allow_undeclared=%s)' % (via, d, override, allow)
      for k, v in d.items():
        if k in model.decl or allow:
          if k in model.loaded and not override:
            probes['override_false_kept'] = 1
          if v is None:
            probes['none_value_loaded'] = 1
        else:
          probes['undeclared_ignored'] = 1
      if via == 'load':
        conf.load(_override=override, _allow_undeclared=allow, **d)
      else:
        conf.load_from_dict(d, _override=override, _allow_undeclared=allow)
      model.load(d, override, allow)
    elif op == 'load_file':
      kind = tape.weighted([(4, 'good'), (1, 'malformed'), (1, 'non_dict'), (1, 'failing')], 'file')
      override = not tape.chance(300, 'no_override')
      desc = 'load_from_file(%s, _override=%s)' % (kind, override)
      if kind == 'good':
        d = {tape.pick(KEYS, 'key'): tape.pick([1, 'yaml text', None, [1, 2], True, 2.5], 'yval')
             for _ in range(1 + tape.draw(3, 'nload'))}
        import yaml
        conf.load_from_file(io.StringIO(yaml.safe_dump(d)), _override=override)
        for k, v in d.items():
          if v is None and k in model.decl:
            probes['none_value_loaded'] = 1
        model.load(d, override, False)
      else:
        stream = {'malformed': io.StringIO('a: [1, 2\n  b: }'), 'non_dict': io.StringIO('- just\n- a list\n'),
                  'failing': FailingStream()}[kind]
        probes[{'malformed': 'malformed_yaml', 'non_dict': 'non_dict_yaml', 'failing': 'failing_stream'}[kind]] = 1
        faults[kind] = faults.get(kind, 0) + 1
        try:
          conf.load_from_file(stream, _override=override)
          viols.append({'clause': 'bad_file_accepted', 'details': {'kind': kind}})
          break
        except cfg.ConfigurationInvalidError:
          if kind == 'failing':
            pass
        except IOError:
          if kind != 'failing':
            viols.append({'clause': 'bad_file_wrong_error', 'details': {'kind': kind, 'exc': 'IOError'}})
            break
    elif op == 'flags':
      import argparse
      kv = []
      for _ in range(1 + tape.draw(2, 'nflags')):
        k = tape.pick(KEYS, 'key')
        v = tape.pick(['7', 'flagtext', 'true', '[1, 2]', 'null'], 'fval')
        kv.append('%s=%s' % (k, v))
      desc = 'load_flag_values(%r)' % kv
      conf.load_flag_values(argparse.Namespace(config_value=kv))
      import yaml
      for item in kv:
        k, v = item.split('=', 1)
        model.flags.setdefault(k, yaml.safe_load(v))
    elif op == 'reset':
      conf.reset()
      model.loaded = {}
      probes['reset'] = 1
    elif op == 'save_restore':
      if rec is None:
        inner = {tape.pick(KEYS, 'key'): tape.pick(VALUES, 'val') for _ in range(1 + tape.draw(2, 'ninner'))}
        deco = {tape.pick(KEYS, 'key'): tape.pick(VALUES, 'val')} if tape.chance(400, 'deco_values') else {}
        raises = tape.chance(400, 'wrapped_raises')
        do_reset = tape.chance(150, 'inner_reset')
        seen = {}

        def body(inner=inner, do_reset=do_reset, raises=raises, seen=seen):
          conf.load(**inner)
          if do_reset:
            conf.reset()
          for k in KEYS:
            try:
              seen[k] = ('val', conf[k])
            except Exception as e:  # pylint: disable=broad-except
              seen[k] = ('exc', type(e).__name__)
          # (a snapshot taken while the temporary values are in force, as Test.execute does for
          # the record's metadata)
          seen['__asdict__'] = ('snap', dict(conf._asdict()))   # pylint: disable=protected-access
          if raises:
            raise ValueError('wrapped function failed')
          return 'ret'

        wrapped = conf.save_and_restore(body, **deco) if not deco else conf.save_and_restore(**deco)(body)
        rec = {'inner': inner, 'deco': deco, 'raises': raises, 'do_reset': do_reset, 'seen': seen, 'wrapped': wrapped}
        if len(pending) < 3:
          pending.append(rec)
        if tape.chance(350, 'only_decorate'):
          # decorated now, called by a later step: the values to restore are those at *call* time
          desc = 'decorate save_and_restore(%r)(load(%r))' % (deco, inner)
          hist.append(desc)
          if not check(desc):
            break
          continue
      inner, deco, raises, do_reset, seen, wrapped = (rec['inner'], rec['deco'], rec['raises'], rec['do_reset'],
                                                      rec['seen'], rec['wrapped'])
      seen.clear()
      desc = 'call save_and_restore(%r)(load(%r)%s%s)' % (deco, inner, '; reset' if do_reset else '', '; raise' if raises else '')
      saved = dict(model.loaded)
      model.load(deco)
      model.load(inner)
      if do_reset:
        model.loaded = {}
      expect_inside = dict((k, model.read(k)) for k in KEYS)
      try:
        r = wrapped()
        if raises or r != 'ret':
          viols.append({'clause': 'wrapped_function_result', 'details': {'raises': raises, 'ret': repr(r)}})
          break
      except ValueError:
        probes['restore_after_raise'] = 1
        faults['wrapped_raises'] = faults.get('wrapped_raises', 0) + 1
        if not raises:
          viols.append({'clause': 'wrapped_function_result', 'details': {'raises': raises}})
          break
      snap_in = (seen.get('__asdict__') or (None, {}))[1]
      for k in KEYS:
        w = expect_inside[k]
        if k in model.decl and w[0] == 'val' and (k not in snap_in or not _same(snap_in[k], w[1])):
          viols.append({'clause': 'snapshot_inside_wrapped_function', 'details': {'key': k, 'got': repr(snap_in.get(k, '<absent>'))[:50],
                                                                                 'want': repr(w[1])[:50]}})
          break
      if viols:
        break
      for k in KEYS:
        g, w = seen.get(k), expect_inside[k]
        if g is None or g[0] != w[0] or (g[0] == 'val' and not _same(g[1], w[1])) or (g[0] == 'exc' and g[1] != w[1]):
          viols.append({'clause': 'value_inside_wrapped_function', 'details': {'key': k, 'got': repr(g)[:50], 'want': repr(w)[:50]}})
          break
      model.loaded = saved
    elif op == 'setattr':
      k = tape.pick(KEYS, 'key')
      desc = 'setattr(%s)' % k
      try:
        setattr(conf, k, 5)
        viols.append({'clause': 'attribute_assignment_accepted', 'details': {'key': k}})
        break
      except AttributeError:
        pass
    hist.append(desc)
    if viols or not check(desc):
      break
    for k in KEYS:
      if k in model.flags and k in model.loaded and k in model.decl:
        probes['flag_over_loaded'] = 1
      if k in model.loaded and k not in model.flags and model.decl.get(k, NOT_SET) is not NOT_SET:
        probes['loaded_over_default'] = 1
  if not viols and tape.chance(60, 'metadata_snapshot'):
    _snapshot_in_metadata(tape, viols, probes)
    hist.append('execute a Test and compare metadata[config]')
  if viols:
    viols[0]['details']['history'] = hist[-6:]
  dg = hashlib.sha1(repr(hist).encode()).hexdigest()
  return {
      'violations': viols[:1], 'digest': dg, 'sched': None,
      'nontrivial': bool(faults) or bool(probes.get('flag_over_loaded') or probes.get('loaded_over_default')
                                         or probes.get('override_false_kept')),
      'faults': faults, 'probes': probes, 'steps': 0, 'switches': 0, 'preempts': 0, 'sim_s': 0.0,
      'sample': {'history': hist[:12]}, 'abnormal': None, 'poison': False,
  }
