"""C08 - Plug lifecycle: one instance per run, tearDown exactly once, always"""
from wx import common
from wx import gen
from wx import oracles

PROPERTY = 'C08'
LEVEL = 'fault_enumeration'
TECHNIQUE = ('deterministic simulation of Test.execute() with instrumented plugs; seeded injection of constructor failures, raising / hanging / slow tearDown (with and without plug_teardown_timeout_s), terminal test_start, phase faults, timeouts and aborts; event-log invariants')
LEVEL_TEXT = ('fault injection over generated programs whose phases and test_start request 0-3 instrumented plug classes under varying argument names: constructor raises for one plug, tearDown raises / hangs (killable or not) / is slow with and without plug_teardown_timeout_s, terminal test_start, phase exception/timeout, operator abort. Invariants: at most one construction per class per run; every phase sees the constructed instance under each requested argument name; every constructed instance gets exactly one tearDown, after the last phase / test diagnoser event and before the first output callback; a failing or abandoned tearDown changes neither the outcome (vs. the reference model) nor the other tearDowns; constructor failure gives ERROR with no later phase body; while test_start runs only its plugs exist; the executor never gets stuck on a hung tearDown when a timeout is configured. Fault slots are sampled per generated shape, not enumerated exhaustively.')
LEVEL_NOTE = ('trusted: simkit, generated plug classes (workloads/bodies.py), wx/model.py for the outcome comparison')
DESIGN_REF = 'DESIGN.md section 4, C08'
RULE = ('one run = generated program with plugs + one plug fault slot (60%%) + optional abort + schedule; non-trivial = a plug was constructed and (a plug fault fired or a phase fault fired or an abort was delivered); distinct = distinct event-log digests')
ASSUMPTIONS = common.W_EXEC_ASSUMPTIONS
COMPONENTS = common.W_EXEC_COMPONENTS
QUICK = {'budget_s': 40}
THOROUGH = {'budget_s': 480}
EXPECTED_PROBES = ['plug_seen', 'ctor_raised', 'teardown_fault_fired', 'test_start_with_plugs']

PROF = gen.profile(max_nodes=9, max_depth=3, w_phase=10, w_group=3, w_subtest=2, w_branch=1, w_ckpt_fail=0, w_ckpt_diag=0, p_fault_beh=200, p_timeout=60, p_plug=650, plug_faults=600, p_test_start=400, abort=250, abort2=400, sigint=200, p_dur=200, p_profile=100, n_plug_classes=4, p_share_function=300)


def setup():
  common.setup()


def run_one(tape):
  return common.run_with(tape, PROF, [oracles.c08])
