"""C15 - ADB connection lifecycle: CNXN/AUTH handshake, stream ids, open/close."""
import threading

from simkit import core
from simkit import env

PROPERTY = 'C15'
LEVEL = 'exploration'
TECHNIQUE = ('deterministic simulation of the real AdbConnection.connect() and stream open/close code against a scripted '
             'device peer (reply scripts with noise, AUTH token / other, rejected signatures, silence, corruption; '
             'open / close / remote-close histories with a small stream id limit); specification automaton + peer audit')
LEVEL_TEXT = ('seeded exploration of device behaviours: (handshake) reply scripts over {noise packets, AUTH(TOKEN), '
              'AUTH(other), CNXN (good / malformed banner), silence, corrupted frame} up to 5 batches with 0-2 recording '
              'signers; a specification automaton written from the statement decides whether a connection must be returned '
              '(with which maxdata / serial / banner) or an auth / protocol / timeout error raised, and the peer audit checks '
              'that only TOKEN challenges are signed, keys are tried in order on the latest token, and the first public key is '
              'offered exactly once and only after every signature was rejected; (streams) histories of open / refused open / '
              'host close / remote close / read-until-closed / illegal mid-session packet with STREAM_ID_LIMIT set to a small '
              'tape-chosen value so that wrap-around and exhaustion are reached: live local ids are distinct, non-zero and '
              'below the limit, a CLSE reply yields no stream and frees the id, every close is answered by exactly one CLSE, '
              'reads drain buffered data and then report the stream closed, an illegal packet raises AdbProtocolError. '
              'The host side is single-threaded here (C14 covers host concurrency); the simulator supplies the peer thread, '
              'virtual-time timeouts and the tape.')
LEVEL_NOTE = ('trusted: simkit, the peer (workloads/wadb.py), the specification automaton in this file; STREAM_ID_LIMIT is a '
              'module constant treated as a tuning knob')
DESIGN_REF = 'DESIGN.md section 4, C15'
RULE = ('one run = a handshake script or a stream history + knobs; non-trivial = the script contains something other than '
        'a plain CNXN / plain open-read-close; distinct = distinct event-log digests')
ASSUMPTIONS = ['the USB transport delivers whole chunks reliably and in order',
               'signers are deterministic functions of (key, token)']
COMPONENTS = {
    'real': ['openhtf.plugs.usb.adb_protocol.AdbConnection (connect, open_stream, close_stream_transport, '
             '_make_stream_transport, read_for_stream)', 'AdbStream / AdbStreamTransport', 'adb_message', 'timeouts'],
    'simulated': ['device peer', 'USB transport', 'clock'],
    'stub': ['libusb1 / usb1 / M2Crypto import-only stubs', 'AuthSigner (recording signer)'],
}
WARMUP = 12
QUICK = {'budget_s': 40}
THOROUGH = {'budget_s': 480}
EXPECTED_PROBES = ['connected', 'auth_no_keys', 'auth_non_token', 'signature_accepted', 'public_key_offered',
                   'public_key_timeout', 'noise_before_cnxn', 'silence', 'corrupt_frame', 'malformed_banner',
                   'id_wrap', 'ids_exhausted', 'open_refused', 'remote_close', 'host_close', 'illegal_packet', 'remote_close_demultiplexed',
                   'concurrent_host_close']

_m = {}
OK_ERRORS = ('DeviceAuthError', 'AdbProtocolError', 'AdbDataIntegrityError', 'AdbTimeoutError', 'UsbReadFailedError')


def setup():
  env.import_openhtf()
  from workloads import wadb
  from openhtf.plugs.usb import adb_protocol
  _m.update(wadb=wadb, adb_protocol=adb_protocol)


def run_one(tape):
  if tape.weighted([(1, 'handshake'), (1, 'streams')], 'part') == 'handshake':
    return run_handshake(tape)
  return run_streams(tape)


# ------------------------------------------------------------------ handshake
def _gen_batches(tape, nkeys):
  wadb = _m['wadb']
  batches = []
  desc = []
  n = 1 + tape.draw(5, 'nbatches')
  for b in range(n):
    batch = []
    d = []
    for _ in range(tape.draw(3, 'nnoise')):
      cmd = tape.pick(['OKAY', 'WRTE', 'CLSE', 'SYNC', 'OPEN'], 'noise')
      data = tape.pick(['n', '5%'], 'ndata') if cmd in ('WRTE', 'OPEN') else ''
      batch.append((cmd, tape.draw(3, 'na'), tape.draw(3, 'nb'), data))
      d.append('noise:' + cmd)
    last = tape.weighted([(4, 'cnxn'), (5, 'auth_token'), (1, 'auth_other'), (2, 'silence'), (1, 'corrupt'),
                          (1, 'bad_banner')], 'last')
    if last == 'cnxn':
      md = tape.pick([64, 4096, 256], 'md')
      batch.append(('CNXN', 0x01000000, md, 'device:SER%d:some:banner' % b))
      d.append('CNXN:%d' % md)
    elif last == 'bad_banner':
      batch.append(('CNXN', 0x01000000, 64, tape.pick(['nobanner', 'no%banner 100%'], 'badbanner')))
      d.append('CNXN:malformed')
    elif last == 'auth_token':
      batch.append(('AUTH', 1, 0, 'TOKEN%d' % b))
      d.append('AUTH:token')
    elif last == 'auth_other':
      batch.append(('AUTH', tape.pick([2, 3, 0], 'atype'), 0, tape.pick(['TOKEN%d' % b, 'TOK%%EN %d%%s' % b], 'otoken')))
      d.append('AUTH:other')
    elif last == 'corrupt':
      h = wadb.header('CNXN', 1, 2, 'device:S:b', cksum=7)
      batch.append(('raw', [h, 'device:S:b']))
      d.append('corrupt')
    else:
      d.append('silence')
    batches.append(batch)
    desc.append(d)
  return batches, desc


def _spec(batches, nkeys):
  """Specification automaton: expected result of connect() and of the signer / peer audit."""
  host_msgs = 1          # the CNXN
  consumed = 0
  exp = {'signed': [], 'pubkey': 0, 'result': None}

  def stream():
    out = []
    for b in batches[:host_msgs]:
      out.extend(b)
    return out

  def read_until(accept):
    nonlocal consumed
    while True:
      s = stream()
      if consumed >= len(s):
        return None           # nothing more will come before the host sends again: time-out
      pkt = s[consumed]
      consumed += 1
      if pkt[0] == 'raw':
        return 'corrupt'
      if pkt[0] in accept:
        return pkt
      # anything else before CNXN is ignored

  def finish_cnxn(pkt):
    if pkt[3].count(':') < 2:
      return ('error', 'malformed_banner')
    st, ser, ban = pkt[3].split(':', 2)
    return ('connected', pkt[2], ser, ban)

  msg = read_until(('AUTH', 'CNXN'))
  if msg is None:
    exp['result'] = ('error', 'timeout')
    return exp
  if msg == 'corrupt':
    exp['result'] = ('error', 'corrupt')
    return exp
  if msg[0] == 'CNXN':
    exp['result'] = finish_cnxn(msg)
    return exp
  if nkeys == 0:
    exp['result'] = ('error', 'no_keys')
    return exp
  for k in range(nkeys):
    if msg[1] != 1:
      exp['result'] = ('error', 'non_token')
      return exp
    exp['signed'].append((k, msg[3]))
    host_msgs += 1
    msg = read_until(('AUTH', 'CNXN'))
    if msg is None:
      exp['result'] = ('error', 'timeout')
      return exp
    if msg == 'corrupt':
      exp['result'] = ('error', 'corrupt')
      return exp
    if msg[0] == 'CNXN':
      exp['result'] = finish_cnxn(msg)
      exp['accepted_key'] = k
      return exp
  exp['pubkey'] = 1
  host_msgs += 1
  msg = read_until(('CNXN',))
  if msg is None:
    exp['result'] = ('error', 'pubkey_timeout')
    return exp
  if msg == 'corrupt':
    exp['result'] = ('error', 'corrupt')
    return exp
  exp['result'] = finish_cnxn(msg)
  return exp


def run_handshake(tape):
  wadb = _m['wadb']
  env.hygiene()
  nkeys = tape.draw(3, 'nkeys')
  batches, desc = _gen_batches(tape, nkeys)
  exp = _spec(batches, nkeys)
  knobs = core.Knobs(p_sync=tape.pick([0, 100], 'p_sync'), gap_mean=tape.pick([0, 30], 'gap'), max_steps=400000,
                     max_time=300.0)
  viols = []
  probes = {}
  faults = {}
  got = {}
  with env.NoGC(25):
    sim = core.Sim(tape, env.TRACE_PREFIXES, knobs)
    sim.begin()
    try:
      tr = wadb.FakeTransport(sim)
      dev = wadb.Device(sim, tape, tr, {'maxdata': 64, 'scripts': {}})
      dth = threading.Thread(target=wadb.device_thread, args=(dev, wadb.scripted_handshake(batches)), name='device')
      dth.daemon = True
      dth.start()
      # a signer slower than the whole connect() timeout: the time runs out *between* two
      # handshake steps
      slow_signer = bool(nkeys) and tape.chance(150, 'slow_signer')
      keys = [wadb.RecordingSigner(sim, k, 1.5 if slow_signer else 0.0) for k in range(nkeys)]
      t0 = sim.now
      try:
        conn = _m['adb_protocol'].AdbConnection.connect(tr, rsa_keys=keys or None, timeout_ms=1000,
                                                        auth_timeout_ms=100)
        got['result'] = ('connected', conn.maxdata, conn.serial, conn.banner)
      except BaseException as e:  # pylint: disable=broad-except
        if isinstance(e, (core.SimAbort, core.SimShutdown)):
          raise
        got['result'] = ('error', type(e).__name__, str(e)[:100])
      got['took'] = sim.now - t0
      dth.join(10.0)
    except core.SimAbort:
      pass
    finally:
      failed = sim.failed
      sim.end()
  log = sim.log
  if failed in ('deadlock', 'hang'):
    viols.append({'clause': 'connect_stuck', 'details': {'info': (sim.failed_info or '')[:200]}})
  elif failed is None and 'result' in got:
    r, e = got['result'], exp['result']
    if slow_signer and any(x[3] == 'sign' for x in log):
      # the timeout expired while signing: connect() may still succeed (if the device's answer is
      # already there) or fail - but only with one of the documented errors
      probes['timeout_expired_between_handshake_steps'] = 1
      if r[0] == 'error' and r[1] not in OK_ERRORS:
        viols.append({'clause': 'handshake_raised_other_error', 'details': {'exc': r[1], 'msg': r[2], 'expected': 'timeout after slow signer'}})
      return _hs_result(sim, viols, probes, faults, batches, desc, exp, got, nkeys, failed)
    flat = [x for d in desc for x in d]
    if any(x.startswith('noise') for x in flat):
      probes['noise_before_cnxn'] = 1
    if e[0] == 'connected':
      probes['connected'] = 1
      if 'accepted_key' in exp:
        probes['signature_accepted'] = 1
      if r[0] != 'connected':
        viols.append({'clause': 'connection_expected_but_error', 'details': {'error': list(r[1:]), 'script': desc,
                                                                            'keys': nkeys}})
      elif tuple(r[1:]) != tuple(e[1:]):
        viols.append({'clause': 'connection_attributes_wrong', 'details': {'got': list(r[1:]), 'want': list(e[1:])}})
    else:
      probes[{'timeout': 'silence', 'corrupt': 'corrupt_frame', 'no_keys': 'auth_no_keys', 'non_token': 'auth_non_token',
              'pubkey_timeout': 'public_key_timeout', 'malformed_banner': 'malformed_banner'}[e[1]]] = 1
      faults[e[1]] = 1
      if r[0] == 'connected':
        viols.append({'clause': 'connection_returned_but_error_expected', 'details': {'expected': e[1], 'script': desc,
                                                                                     'keys': nkeys}})
      elif r[1] not in OK_ERRORS:
        viols.append({'clause': 'handshake_raised_other_error', 'details': {'exc': r[1], 'msg': r[2], 'expected': e[1]}})
      elif e[1] in ('no_keys', 'pubkey_timeout') and r[1] != 'DeviceAuthError':
        viols.append({'clause': 'auth_failure_not_reported_as_auth_error', 'details': {'exc': r[1], 'expected': e[1]}})
      elif e[1] == 'non_token' and r[1] != 'AdbProtocolError':
        viols.append({'clause': 'non_token_challenge_not_a_protocol_error', 'details': {'exc': r[1]}})
    # signer / peer audit
    signed = [(x[4], x[5]) for x in log if x[3] == 'sign']
    if signed != exp['signed']:
      viols.append({'clause': 'signatures_differ_from_specification', 'details': {'signed': signed[:4],
                                                                                'expected': exp['signed'][:4]}})
    auth_msgs = [m for m in dev.received if m[0] == 'AUTH']
    sigs = [m for m in auth_msgs if m[1] == 2]
    pubs = [m for m in auth_msgs if m[1] == 3]
    if [m[3] for m in sigs] != ['SIG%d(%s)' % (k, t) for (k, t) in exp['signed']]:
      viols.append({'clause': 'signature_packets_wrong', 'details': {'sent': [m[3][:20] for m in sigs][:4]}})
    if len(pubs) != exp['pubkey']:
      viols.append({'clause': 'public_key_offer_count', 'details': {'offered': len(pubs), 'expected': exp['pubkey']}})
    elif pubs:
      probes['public_key_offered'] = 1
      if pubs[0][3] != 'PUB0\0':
        viols.append({'clause': 'public_key_payload', 'details': {'payload': pubs[0][3][:20]}})
      if auth_msgs.index(pubs[0]) != len(auth_msgs) - 1 or len(sigs) != nkeys:
        viols.append({'clause': 'public_key_offered_before_all_signatures', 'details': {'sigs': len(sigs), 'keys': nkeys}})
    if dev.received and dev.received[0][0] != 'CNXN':
      viols.append({'clause': 'first_host_packet_not_CNXN', 'details': {'first': dev.received[0][0]}})
  return _hs_result(sim, viols, probes, faults, batches, desc, exp, got, nkeys, failed)


def _hs_result(sim, viols, probes, faults, batches, desc, exp, got, nkeys, failed):
  return {
      'violations': viols, 'digest': sim.digest(), 'sched': sim.sched_digest(),
      'nontrivial': bool(faults) or len(batches) > 1 or bool(probes.get('noise_before_cnxn')),
      'faults': faults, 'probes': probes, 'steps': sim.steps, 'switches': sim.switches, 'preempts': sim.preemptions,
      'sim_s': sim.now - core.T0,
      'sample': {'part': 'handshake', 'keys': nkeys, 'script': desc, 'expected': list(exp['result'])[:2],
                 'got': list(got.get('result', []))[:2]},
      'abnormal': ('%s: %s' % (failed, sim.failed_info)) if failed in ('steplimit', 'unwind') else None,
      'poison': bool(failed),
  }


# --------------------------------------------------------------------- streams
def run_streams(tape):
  wadb = _m['wadb']
  ap = _m['adb_protocol']
  env.hygiene()
  limit = tape.pick([3, 4, 6, 70], 'limit')
  nsvc = 2 + tape.draw(5, 'nsvc')
  svcs = ['svc:%d' % i for i in range(nsvc)]
  scripts = {}
  refuse = set()
  close_after = {}
  inject = {}
  for s in svcs:
    scripts[s] = ['%s-chunk%d;' % (s, j) for j in range(tape.draw(4, 'nchunks'))]
    if tape.chance(150, 'refuse'):
      refuse.add(s)
    elif tape.chance(150, 'inject') and scripts[s]:
      inject[s] = (1 + tape.draw(len(scripts[s]), 'inj_at'), tape.pick(['CNXN', 'AUTH', 'SYNC', 'OPEN'], 'inj_cmd'))
  # host history: each step opens a service, then either keeps it open, closes it, or reads it to the end
  plan = []
  for s in svcs:
    # closing a stream the device is still writing to leaves stale packets on the wire; with an id
    # limit this small the id would be reused at once and the stale packet misattributed (real
    # limits are 2**16), so early host closes are only generated when ids are not reused in the run
    opts = [(3, 'read_to_end'), (2, 'keep'), (2, 'keep_remote_closes'), (2, 'keep_then_close_and_drain')]
    if limit > nsvc + 1:
      opts += [(2, 'close_now'), (1, 'read_one_then_close')]
    plan.append((s, tape.weighted(opts, 'what')))
  knobs = core.Knobs(p_sync=tape.pick([0, 100], 'p_sync'), gap_mean=tape.pick([0, 40], 'gap'), max_steps=800000,
                     max_time=400.0)
  viols = []
  probes = {}
  faults = {}
  hist = []
  closers = []
  closer_out = []
  drain_later = []
  # (like the early host closes above: only when ids are not reused within the run)
  concurrent_close = tape.chance(500, 'concurrent_close') and limit > nsvc + 1
  saved_limit = ap.STREAM_ID_LIMIT
  with env.NoGC(25):
    sim = core.Sim(tape, env.TRACE_PREFIXES, knobs)
    sim.begin()
    ap.STREAM_ID_LIMIT = limit
    dev = None
    try:
      tr = wadb.FakeTransport(sim)
      dev = wadb.Device(sim, tape, tr, {'maxdata': 64, 'scripts': scripts, 'refuse': refuse,
                                        'close_after': close_after, 'inject': inject,
                                        'expect_host_writes': {s: 10 ** 6 for s, w in plan if w in ('keep', 'keep_then_close_and_drain')}})
      dth = threading.Thread(target=wadb.device_thread, args=(dev, wadb.plain_handshake), name='device')
      dth.daemon = True
      dth.start()
      conn = ap.AdbConnection.connect(tr, timeout_ms=2000)
      live = {}     # svc -> stream kept open
      for (s, what) in plan:
        rec = {'svc': s, 'what': what, 'live_before': len(live)}
        hist.append(rec)
        try:
          stream = conn.open_stream(s, 1500)
        except BaseException as e:  # pylint: disable=broad-except
          if isinstance(e, (core.SimAbort, core.SimShutdown)):
            raise
          rec['open'] = 'exc:' + type(e).__name__
          rec['msg'] = str(e)[:80]
          continue
        if stream is None:
          rec['open'] = 'none'
          continue
        rec['open'] = 'ok'
        rec['local'] = stream._transport.local_id   # pylint: disable=protected-access
        # (a kept stream that the device has closed in the meantime no longer owns its id)
        rec['ids_live'] = sorted(st._transport.local_id for sv, st in live.items()
                                 if dict(plan)[sv] == 'keep') + [dst._transport.local_id for (_, dst) in drain_later] + [rec['local']]
        if what == 'keep_then_close_and_drain':
          drain_later.append((rec, stream))
        elif what in ('keep', 'keep_remote_closes'):
          live[s] = stream
          if what == 'keep_remote_closes' and concurrent_close:
            # a second host thread closes it while this one goes on reading other streams - and so
            # demultiplexes the device's own CLSE for it
            probes['concurrent_host_close'] = 1
            cth = threading.Thread(target=wadb.closer, args=(sim, stream, tape.pick([0, 0.001, 0.05], 'cdelay'), closer_out),
                                   name='closer-%s' % s)
            cth.daemon = True
            cth.start()
            closers.append(cth)
        elif what == 'close_now':
          stream.close(200)
          rec['closed'] = 'host'
          try:
            stream.read(timeout_ms=200)
            rec['read_after_close'] = 'data'
          except BaseException as e:  # pylint: disable=broad-except
            rec['read_after_close'] = type(e).__name__
        else:
          data = []
          try:
            while True:
              d = stream.read(timeout_ms=1500)
              if d is None:
                break
              data.append(d)
              if what == 'read_one_then_close':
                stream.close(200)
                rec['closed'] = 'host'
                break
            rec['end'] = 'none'
          except BaseException as e:  # pylint: disable=broad-except
            if isinstance(e, (core.SimAbort, core.SimShutdown)):
              raise
            rec['end'] = type(e).__name__
            rec['msg'] = str(e)[:80]
          rec['data'] = ''.join(data)
      for cth in closers:
        cth.join()
      # streams whose packets other readers have demultiplexed meanwhile: close from the host
      # side, then read - what was received before the close must still come out
      for (rec, stream) in drain_later:
        core.sim_sleep(0.3)
        rec['wire_empty_at_close'] = not tr.d2h.chunks
        rec['sent_at_close'] = dict((st_['svc'], st_['sent']) for st_ in dev.streams.values()).get(rec['svc'], 0)
        stream.close(200)
        rec['closed'] = 'host'
        data = []
        try:
          for _ in range(20):
            d = stream.read(timeout_ms=300)
            if d is None:
              break
            data.append(d)
          rec['end'] = 'none'
        except BaseException as e:  # pylint: disable=broad-except
          if isinstance(e, (core.SimAbort, core.SimShutdown)):
            raise
          rec['end'] = type(e).__name__
        rec['data'] = ''.join(data)
      # finally close what was kept
      for s, stream in sorted(live.items()):
        stream.close(200)
      # let the device read the last CLSE packets (it serves one host packet per turn and pauses
      # between its own writes, so the time it needs grows with the number of packets queued)
      for _ in range(100):
        if not tr.h2d.chunks:
          break
        core.sim_sleep(0.2)
      core.sim_sleep(0.5)
      dev.done = True
      dth.join(20.0)
    except core.SimAbort:
      pass
    except BaseException as e:  # pylint: disable=broad-except
      viols.append({'clause': 'stream_history_raised', 'details': {'exc': type(e).__name__, 'msg': str(e)[:150]}})
    finally:
      ap.STREAM_ID_LIMIT = saved_limit
      failed = sim.failed
      sim.end()
  if failed in ('deadlock', 'hang'):
    viols.append({'clause': 'stream_history_stuck', 'details': {'info': (sim.failed_info or '')[:200]}})
  elif failed is None and dev is not None:
    by_svc = dict((st['svc'], (rid, st)) for rid, st in dev.streams.items())
    for v in dev.violations:
      viols.append({'clause': 'device_audit_' + str(v[0]), 'details': {'info': [str(x)[:40] for x in v[1:]]}})
    nlive = 0
    injected = bool(dev.stats.get('illegal_packet_injected'))
    if injected:
      # whichever host call reads the illegal packet must raise AdbProtocolError; what the
      # session does afterwards is not specified, so the history is only checked up to there
      probes['illegal_packet'] = 1
      faults['illegal_packet'] = 1
      cut = None
      for i, rec in enumerate(hist):
        if rec.get('open') == 'exc:AdbProtocolError' or rec.get('end') == 'AdbProtocolError' or \
            rec.get('read_after_close') == 'AdbProtocolError':
          cut = i
          break
      if cut is None:
        # (a packet that arrives while nobody reads any more is never seen by the host: the
        # error is required only when the injecting stream itself is read to its end)
        inj_svcs = [st_['svc'] for st_ in dev.streams.values() if st_.get('injected')]
        if any(r['svc'] in inj_svcs and r.get('what') == 'read_to_end' and r.get('open') == 'ok' for r in hist):
          viols.append({'clause': 'illegal_packet_not_a_protocol_error', 'details': {
              'history': [[r['svc'], r['what'], r.get('open'), r.get('end')] for r in hist][:8]}})
        hist_checked = []
      else:
        hist_checked = hist[:cut]
    else:
      hist_checked = hist
    for rec in hist_checked:
      s = rec['svc']
      capacity = limit - 1
      if s in refuse:
        probes['open_refused'] = 1
        faults['open_refused'] = 1
      if rec.get('open', '').startswith('exc:'):
        if rec['open'] == 'exc:AdbStreamUnavailableError' and nlive >= min(capacity, 1) and nlive >= capacity:
          probes['ids_exhausted'] = 1
        elif rec['open'] == 'exc:AdbStreamUnavailableError' and capacity > 64 and nlive >= 64:
          probes['ids_exhausted'] = 1
        else:
          viols.append({'clause': 'open_raised', 'details': {'exc': rec['open'], 'msg': rec.get('msg'), 'live': nlive,
                                                             'limit': limit, 'refused': s in refuse}})
        continue
      if s in refuse:
        if rec.get('open') != 'none':
          viols.append({'clause': 'refused_open_returned_stream', 'details': {'open': rec.get('open')}})
        continue
      if rec.get('open') != 'ok':
        viols.append({'clause': 'open_failed', 'details': {'open': rec.get('open'), 'svc': s}})
        continue
      ids = rec['ids_live']
      if len(set(ids)) != len(ids) or any(i <= 0 or i >= limit for i in ids):
        viols.append({'clause': 'local_ids_not_distinct_nonzero_below_limit', 'details': {'ids': ids, 'limit': limit}})
      if rec['local'] <= rec['live_before'] and rec['live_before'] >= 0 and rec['local'] < max(ids):
        probes['id_wrap'] = 1
      what = rec['what']
      rid, st = by_svc.get(s, (None, None))
      if st is None:
        viols.append({'clause': 'device_never_saw_open', 'details': {'svc': s}})
        continue
      clse = st.get('closed_by_host', 0)
      if what == 'keep_then_close_and_drain':
        nlive += 1
        sent = ''.join(scripts[s][:st['sent']])
        got_d = rec.get('data') or ''
        probes['close_then_drain'] = 1
        if rec.get('end') != 'AdbStreamClosedError':
          viols.append({'clause': 'closed_stream_not_reported_closed', 'details': {'end': rec.get('end'), 'what': what}})
        elif not sent.startswith(got_d):
          viols.append({'clause': 'stream_data_wrong', 'details': {'got': got_d[:40], 'sent': sent[:40], 'what': what}})
        elif rec.get('wire_empty_at_close') and rec.get('sent_at_close', 0) >= 1 and scripts[s] and \
            not got_d.startswith(scripts[s][0]):
          # the device's first WRTE had been taken off the wire by the host (another stream's
          # reader queued it for this stream) before the host closed the stream
          viols.append({'clause': 'reads_did_not_drain_buffered_data', 'details': {
              'got': got_d[:40], 'queued_before_close': scripts[s][0][:40], 'what': what}})
        if clse != 1:
          viols.append({'clause': 'close_not_answered_by_exactly_one_CLSE', 'details': {'svc': s, 'clse': clse, 'what': what}})
        continue
      if what == 'keep_remote_closes':
        # the device closed it while another stream's reader was demultiplexing; the host's own
        # close() later must not produce a second CLSE
        nlive += 1
        probes['remote_close_demultiplexed'] = 1
        if clse > 1:
          viols.append({'clause': 'close_not_answered_by_exactly_one_CLSE', 'details': {'svc': s, 'clse': clse, 'what': what}})
        continue
      if what == 'keep':
        nlive += 1
        probes['host_close'] = 1
        if clse != 1:
          viols.append({'clause': 'close_not_answered_by_exactly_one_CLSE', 'details': {'svc': s, 'clse': clse, 'what': what}})
        continue
      if what == 'close_now':
        probes['host_close'] = 1
        if clse != 1:
          viols.append({'clause': 'close_not_answered_by_exactly_one_CLSE', 'details': {'svc': s, 'clse': clse, 'what': what}})
        if rec.get('read_after_close') != 'AdbStreamClosedError':
          viols.append({'clause': 'read_after_close', 'details': {'got': rec.get('read_after_close')}})
        continue
      # read_to_end / read_one_then_close
      sent = ''.join(scripts[s][:st['sent']])
      if what == 'read_to_end':
        probes['remote_close'] = 1
        if rec.get('end') != 'AdbStreamClosedError':
          viols.append({'clause': 'closed_stream_not_reported_closed', 'details': {'end': rec.get('end'), 'msg': rec.get('msg')}})
        if rec.get('data') != sent:
          viols.append({'clause': 'reads_did_not_drain_buffered_data', 'details': {'got': (rec.get('data') or '')[:40],
                                                                                 'sent': sent[:40]}})
        if clse != 1:
          viols.append({'clause': 'close_not_answered_by_exactly_one_CLSE', 'details': {'svc': s, 'clse': clse, 'what': what}})
      else:
        if not sent.startswith(rec.get('data') or ''):
          viols.append({'clause': 'stream_data_wrong', 'details': {'got': (rec.get('data') or '')[:40], 'sent': sent[:40]}})
        if clse != 1 and rec.get('closed') == 'host':
          viols.append({'clause': 'close_not_answered_by_exactly_one_CLSE', 'details': {'svc': s, 'clse': clse, 'what': what}})
  return {
      'violations': viols, 'digest': sim.digest(), 'sched': sim.sched_digest(),
      'nontrivial': True, 'faults': faults, 'probes': probes, 'steps': sim.steps, 'switches': sim.switches,
      'preempts': sim.preemptions, 'sim_s': sim.now - core.T0,
      'sample': {'part': 'streams', 'limit': limit, 'plan': plan, 'refuse': sorted(refuse), 'inject': inject,
                 'history': [{k: v for k, v in r.items() if k in ('svc', 'what', 'open', 'local', 'end')} for r in hist]},
      'abnormal': ('%s: %s' % (failed, sim.failed_info)) if failed in ('steplimit', 'unwind') else None,
      'poison': bool(failed),
  }
