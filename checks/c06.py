"""C06 - measurement outcome = all validators on the recorded (transformed) value."""
from simkit import core
from simkit import env
from wx import common
from wx import wmeas

PROPERTY = 'C06'
LEVEL = 'exploration'
TECHNIQUE = ('seeded assignment-and-fault histories executed inside a real phase by the real executor under the '
             'simulator (raising validators, rejected operations), checked against a reference measurement model')
LEVEL_TEXT = ('seeded histories against a reference model: inside a real phase run by the real executor, up to 12 '
              'operations (set / attribute set / override / per-coordinate set and override / wrong coordinate count / '
              'undeclared name / dimensioned-without-index) over 1-3 measurements with transforms, precision, built-in and '
              'custom validators (some raising, some value-dependent), conditional validators activated by an earlier '
              'phase\'s diagnosis, values incl. None, NaN, +-inf, strings, containers. The final phase record must show, per '
              'measurement: recorded value = transform of the last assignment (per coordinate, first-assignment order), '
              'outcome UNSET / PASS / FAIL as decided by independently calling the same validators on the recorded value, '
              'marginal only if PASS and some validator says so, never PARTIALLY_SET, rejected operations raised and '
              'changed nothing, a raising validator gives FAIL and a phase error (at the assignment, or at phase end for '
              'dimensioned). There is no interleaving to search: the scheduler only runs the executor; the evidence is '
              '"seeded histories x faults against a model".')
LEVEL_NOTE = 'trusted: the built-in validators themselves (C07 is not claimed), the reference model in wx/wmeas.py'
DESIGN_REF = 'DESIGN.md section 4, C06'
RULE = ('one run = one assignment history (<= 12 ops, <= 3 measurements); non-trivial = an override, a dimensioned '
        'measurement, a transform, a conditional validator or a fault occurs; distinct = distinct event-log digests')
ASSUMPTIONS = ['validators are deterministic functions of the value']
COMPONENTS = {
    'real': ['openhtf.core.measurements (Measurement, MeasuredValue, DimensionedMeasuredValue, Collection)',
             'openhtf.core.test_state.PhaseState (finalization)', 'openhtf.util.validators', 'the phase / test executor'],
    'simulated': ['locks, scheduling, clock'], 'reference_model': 'wx/wmeas.py model()'}
WARMUP = 6
QUICK = {'budget_s': 40}
THOROUGH = {'budget_s': 480}
EXPECTED_PROBES = ['override', 'dimensioned', 'transform', 'conditional_active', 'validator_raised', 'rejected_op',
                   'marginal', 'coordinate_override']


def setup():
  common.setup()
  import workloads.mbodies  # noqa: F401  pylint: disable=unused-import,g-import-not-at-top


def run_one(tape):
  sim, spec, exp, rec, obs, failed = wmeas.run(tape, for_c10=False)
  viols = []
  probes = {}
  log = sim.log[obs.get('log_from', 0):]
  if obs.get('prior_run'):
    probes['observed_run_follows_a_run_with_active_conditionals'] = 1
  if failed in ('deadlock', 'hang'):
    viols.append({'clause': 'phase_stuck', 'details': {'info': (sim.failed_info or '')[:200]}})
  elif failed is None and rec is not None:
    ph = [p for p in rec.phases if p.name == 'measphase']
    if len(ph) != 1:
      viols.append({'clause': 'phase_record_missing', 'details': {'phases': [p.name for p in rec.phases]}})
    else:
      p = ph[0]
      seen_sets = {}
      for op in spec['ops']:
        if op[0] in ('set', 'setattr'):
          if seen_sets.get(op[1]):
            probes['override'] = 1
          seen_sets[op[1]] = True
        if op[0] == 'setdim':
          probes['dimensioned'] = 1
          key = (op[1], op[2])
          if seen_sets.get(key):
            probes['coordinate_override'] = 1
          seen_sets[key] = True
      if any(m['transform'] for m in spec['meas']):
        probes['transform'] = 1
      if spec['pre_diag'] and any(m['cond'] for m in spec['meas']):
        probes['conditional_active'] = 1
      # rejected operations
      for e in log:
        if e[3] == 'op_not_rejected':
          viols.append({'clause': 'invalid_assignment_not_rejected', 'details': {'op': spec['ops'][e[4]]}})
        if e[3] == 'op_rejected':
          probes['rejected_op'] = 1
      stopped = exp.stopped_at
      for m in spec['meas']:
        want = exp.meas[m['name']]
        got = p.measurements.get(m['name'])
        if got is None:
          viols.append({'clause': 'measurement_missing_from_record', 'details': {'name': m['name']}})
          continue
        oc = got.outcome.name
        if oc == 'PARTIALLY_SET':
          viols.append({'clause': 'measurement_left_PARTIALLY_SET', 'details': {'name': m['name']}})
          continue
        if oc != want['outcome']:
          viols.append({'clause': 'outcome_differs_from_validators', 'details': {
              'name': m['name'], 'got': oc, 'want': want['outcome'], 'validators': m['validators'], 'cond': m['cond'],
              'cond_active': bool(spec['pre_diag']), 'value': repr(want['value'])[:60], 'dims': m['dims'],
              'transform': m['transform']}})
          continue
        if want['set']:
          gv = got.measured_value.value
          if not wmeas.same_value(gv, want['value']):
            viols.append({'clause': 'recorded_value_wrong', 'details': {
                'name': m['name'], 'got': repr(gv)[:80], 'want': repr(want['value'])[:80], 'transform': m['transform'],
                'dims': m['dims']}})
            continue
        elif got.measured_value.is_value_set:
          viols.append({'clause': 'value_set_without_assignment', 'details': {'name': m['name']}})
        if bool(got.marginal) != bool(want['marginal']):
          viols.append({'clause': 'marginal_flag_wrong', 'details': {
              'name': m['name'], 'got': bool(got.marginal), 'want': bool(want['marginal']), 'outcome': oc,
              'value': repr(want['value'])[:40], 'validators': m['validators']}})
        if want['marginal']:
          probes['marginal'] = 1
      # phase error when a validator raised
      pres = p.outcome.name if p.outcome else None
      if exp.phase_error:
        probes['validator_raised'] = 1
        if pres != 'ERROR':
          viols.append({'clause': 'raising_validator_not_a_phase_error', 'details': {'phase_outcome': pres,
                                                                                   'at_assignment': stopped is not None}})
        if stopped is not None and not any(e[3] == 'validator_raised_at_assignment' and e[4] == stopped for e in log):
          viols.append({'clause': 'validator_exception_not_raised_at_assignment', 'details': {'op_index': stopped}})
      else:
        bad = [n for n, w in exp.meas.items() if w['outcome'] == 'FAIL' or (w['outcome'] == 'UNSET' and not spec['allow_unset'])]
        want_p = 'FAIL' if bad else 'PASS'
        if pres != want_p:
          viols.append({'clause': 'phase_outcome_vs_measurements', 'details': {'got': pres, 'want': want_p, 'bad': bad}})
  return {
      'violations': viols, 'digest': sim.digest(), 'sched': sim.sched_digest(),
      'nontrivial': bool(probes), 'faults': ({'validator_raises': 1} if probes.get('validator_raised') else {}),
      'probes': probes, 'steps': sim.steps, 'switches': sim.switches, 'preempts': sim.preemptions,
      'sim_s': sim.now - core.T0,
      'sample': {'measurements': [{k: m[k] for k in ('name', 'dims', 'transform', 'validators', 'cond')} for m in spec['meas']],
                 'ops': spec['ops'][:12], 'pre_diag': spec['pre_diag'],
                 'expected': {n: [w['outcome'], w['marginal']] for n, w in exp.meas.items()}},
      'abnormal': ('%s: %s' % (failed, sim.failed_info)) if failed in ('steplimit', 'unwind') else None,
      'poison': bool(failed),
  }
