"""C13 - ADB message framing."""
import struct
import threading

from simkit import core
from simkit import env

PROPERTY = 'C13'
LEVEL = 'fault_enumeration'
TECHNIQUE = ('deterministic simulation of the real AdbTransportAdapter on a simulated transport: two writer / two '
             'reader threads under seeded line-level schedules, a slow link, and peer-side single-field corruptions and '
             'truncations of valid frames; wire-log and round-trip oracles')
LEVEL_TEXT = ('seeded fault injection and schedule exploration: (writers) 1-2 threads write random messages (all 7 '
              'commands, 32-bit boundary arguments, payload lengths 0..maxdata) through one adapter while the link may be '
              'slow enough for the header write to outlive the timeout; the wire log must show each 24-byte little-endian '
              'header (command, arg0, arg1, length, byte-sum, command xor 0xFFFFFFFF) immediately followed by its payload '
              'chunk from the same writer, and decode to exactly the messages written; (readers) 1-2 threads read a '
              'scripted sequence of valid frames optionally ending in one corrupted frame (length field, checksum, '
              'unknown command, short / empty header, truncated payload, length 0 with non-zero checksum): every valid '
              'frame is returned once, whole and equal, every corrupted frame raises an ADB integrity/protocol error and '
              'is never delivered. Corruption kinds are enumerated by the tape, interleavings sampled.')
LEVEL_NOTE = 'trusted: simkit, the simulated transport (chunk pipes with timed reads), the stub libusb1 exception'
DESIGN_REF = 'DESIGN.md section 4, C13'
RULE = ('one run = writers or readers scenario + messages + corruption + schedule knobs; non-trivial = two threads '
        'shared the adapter, or a corruption / slow-link fault was injected; distinct = distinct event-log digests')
ASSUMPTIONS = ['the USB transport delivers whole chunks reliably and in order (bulk transfers); only the peer misbehaves',
               'payloads are str, headers bytes (the stack under test is Python-2-era)']
COMPONENTS = {
    'real': ['openhtf.plugs.usb.adb_message.AdbTransportAdapter / AdbMessage / RawAdbMessage',
             'openhtf.util.timeouts.PolledTimeout'],
    'simulated': ['USB transport (chunk pipes)', 'locks, scheduling, clock'],
    'stub': ['libusb1 / usb1 / M2Crypto import-only stubs'],
}
WARMUP = 12
QUICK = {'budget_s': 40}
THOROUGH = {'budget_s': 480}
EXPECTED_PROBES = ['two_writers', 'two_readers', 'slow_link_header_outlived_timeout', 'corrupt_length',
                   'corrupt_checksum', 'corrupt_unknown_cmd', 'corrupt_short_header', 'corrupt_empty_header',
                   'corrupt_len0_with_checksum', 'corrupt_payload_truncated', 'writers_contended']

_m = {}
CORRUPTIONS = ['length', 'checksum', 'unknown_cmd', 'short_header', 'empty_header', 'len0_with_checksum',
               'payload_truncated']


def setup():
  env.import_openhtf()
  from workloads import wadb
  from openhtf.plugs.usb import adb_message, usb_exceptions
  _m.update(wadb=wadb, adb_message=adb_message, exc=usb_exceptions)


def _rand_msg(tape, maxdata):
  wadb = _m['wadb']
  cmd = tape.pick(wadb.CMDS, 'cmd')
  args = [tape.pick([0, 1, 0x7FFFFFFF, 0xFFFFFFFF, 0x12345678, 0xCAFE], 'arg') for _ in range(2)]
  n = tape.pick([0, 1, 2, 17, maxdata - 1, maxdata], 'len')
  data = ''.join(chr(33 + ((i * 7 + n) % 90)) for i in range(n))
  return (cmd, args[0], args[1], data)


def run_one(tape):
  wadb = _m['wadb']
  env.hygiene()
  kind = tape.weighted([(1, 'writers'), (1, 'readers')], 'kind')
  maxdata = tape.pick([64, 256, 4096], 'maxdata')
  knobs = core.Knobs(p_sync=tape.pick([0, 100, 400], 'p_sync'), gap_mean=tape.pick([0, 3, 10, 40], 'gap'),
                     hot_span=0, max_steps=400000, max_time=600.0)
  viols = []
  probes = {}
  faults = {}
  sample = {'kind': kind}
  with env.NoGC(25):
    sim = core.Sim(tape, env.TRACE_PREFIXES, knobs)
    sim.begin()
    try:
      if kind == 'writers':
        nw = 1 + tape.draw(2, 'nw')
        delay = tape.pick([0, 0, 0.002, 0.05], 'wdelay')
        timeout_ms = tape.pick([1000, 1000, 20, 1], 'wtimeout')
        tr = wadb.FakeTransport(sim, write_delay=delay, delay_every=tape.pick([0, 2], 'every'))
        adapter = _m['adb_message'].AdbTransportAdapter(tr)
        sent = {}
        errs = []
        ths = []
        for w in range(nw):
          msgs = [_rand_msg(tape, maxdata) for _ in range(1 + tape.draw(3, 'nmsg'))]
          sent[w] = msgs
          t = threading.Thread(target=wadb.frame_writer, args=(sim, adapter, w, msgs, timeout_ms, errs),
                               name='writer%d' % w)
          t.daemon = True
          ths.append(t)
        for t in ths:
          t.start()
        for t in ths:
          t.join()
        if nw > 1:
          probes['two_writers'] = 1
        if delay and delay * 1000 > timeout_ms:
          probes['slow_link_header_outlived_timeout'] = 1
          faults['slow_link'] = 1
        sample.update(writers=nw, delay=delay, timeout_ms=timeout_ms,
                      msgs=[[m[0], m[1], m[2], len(m[3])] for w in sorted(sent) for m in sent[w]][:8])
        _check_wire(tr, sent, errs, viols, probes)
      else:
        nr = 1 + tape.draw(2, 'nr')
        nvalid = tape.draw(4, 'nvalid') + (0 if tape.chance(700, 'corrupt') else 1)
        corrupt = None
        frames = [_rand_msg(tape, maxdata) for _ in range(nvalid)]
        tr = wadb.FakeTransport(sim)
        adapter = _m['adb_message'].AdbTransportAdapter(tr)
        chunks = []
        for (cmd, a0, a1, data) in frames:
          chunks.append(wadb.header(cmd, a0, a1, data))
          if data:
            chunks.append(data)
        if tape.rec[-1] >= 300 or nvalid == 0:   # (the 'corrupt' draw above)
          corrupt = tape.pick(CORRUPTIONS, 'corruption')
          cmd, a0, a1, data = _rand_msg(tape, maxdata)
          if corrupt in ('length', 'checksum', 'payload_truncated') and not data:
            data = 'xyz'
          if corrupt == 'length':
            chunks += [wadb.header(cmd, a0, a1, data, length=len(data) + tape.pick([1, -1, 100], 'dl')), data]
          elif corrupt == 'checksum':
            chunks += [wadb.header(cmd, a0, a1, data, cksum=(wadb.checksum(data) + 1) & 0xFFFFFFFF), data]
          elif corrupt == 'unknown_cmd':
            chunks += [wadb.header(cmd, a0, a1, data, wirecmd=0x58585858)] + ([data] if data else [])
          elif corrupt == 'short_header':
            chunks += [wadb.header(cmd, a0, a1, data)[:tape.pick([1, 10, 23], 'short')]]
          elif corrupt == 'empty_header':
            chunks += [b'']
          elif corrupt == 'len0_with_checksum':
            chunks += [wadb.header(cmd, a0, a1, '', cksum=tape.pick([1, 0xFFFF], 'ck'))]
          elif corrupt == 'payload_truncated':
            chunks += [wadb.header(cmd, a0, a1, data), data[:-1]]
          probes['corrupt_' + corrupt] = 1
          faults['corrupt_' + corrupt] = 1
        upfront = tape.chance(500, 'upfront')
        got = []
        ths = []
        per = (nvalid + (1 if corrupt else 0) + nr) // nr + 1
        for r in range(nr):
          t = threading.Thread(target=wadb.frame_reader, args=(sim, adapter, r, per, 300, got), name='reader%d' % r)
          t.daemon = True
          ths.append(t)
        if upfront:
          for c in chunks:
            tr.d2h.put(c)
        for t in ths:
          t.start()
        if not upfront:
          for c in chunks:
            if tape.chance(300, 'feed_pause'):
              core.sim_sleep(0.001)
            tr.d2h.put(c)
        for t in ths:
          t.join()
        if nr > 1:
          probes['two_readers'] = 1
        sample.update(readers=nr, valid=[[m[0], m[1], m[2], len(m[3])] for m in frames], corruption=corrupt,
                      got=[list(g[:4]) for g in got][:8])
        _check_reads(frames, corrupt, got, nr, viols)
    except core.SimAbort:
      pass
    finally:
      failed = sim.failed
      sim.end()
  if failed in ('deadlock', 'hang'):
    viols.append({'clause': 'framing_scenario_stuck', 'details': {'info': (sim.failed_info or '')[:200], 'kind': kind}})
  return {
      'violations': viols, 'digest': sim.digest(), 'sched': sim.sched_digest(),
      'nontrivial': bool(faults) or bool(probes.get('two_writers') or probes.get('two_readers')),
      'faults': faults, 'probes': probes, 'steps': sim.steps, 'switches': sim.switches,
      'preempts': sim.preemptions, 'sim_s': sim.now - core.T0, 'sample': sample,
      'abnormal': ('%s: %s' % (failed, sim.failed_info)) if failed in ('steplimit', 'unwind') else None,
      'poison': bool(failed),
  }


def _check_wire(tr, sent, errs, viols, probes):
  wadb = _m['wadb']
  log = tr.wlog
  decoded = {}
  i = 0
  while i < len(log):
    seq, tid, h = log[i]
    if not isinstance(h, bytes) or len(h) != 24:
      viols.append({'clause': 'wire_header_expected', 'details': {'index': i, 'chunk': repr(h)[:30]}})
      return
    cmd, a0, a1, ln, ck, mg = struct.unpack('<6I', h)
    if i + 1 >= len(log):
      viols.append({'clause': 'header_not_followed_by_payload', 'details': {'index': i}})
      return
    seq2, tid2, data = log[i + 1]
    if tid2 != tid:
      viols.append({'clause': 'header_and_payload_interleaved_between_writers',
                    'details': {'header_thread': tid, 'next_chunk_thread': tid2}})
      return
    if isinstance(data, bytes) or len(data) != ln or wadb.checksum(data) != ck or mg != (cmd ^ 0xFFFFFFFF):
      viols.append({'clause': 'header_fields_do_not_describe_payload',
                    'details': {'length_field': ln, 'payload_len': len(data), 'checksum_ok': wadb.checksum(data) == ck
                                if not isinstance(data, bytes) else None, 'magic_ok': mg == (cmd ^ 0xFFFFFFFF)}})
      return
    name = _m['adb_message'].AdbMessage.WIRE_TO_CMD.get(cmd)
    decoded.setdefault(tid, []).append((name, a0, a1, data))
    i += 2
  tids = sorted(decoded)
  if len(tids) > 1:
    order = [x[1] for x in log[::2]]
    if any(order[j] != order[j + 1] for j in range(len(order) - 1)) :
      probes['writers_contended'] = 1
  if errs:
    viols.append({'clause': 'write_raised', 'details': {'errors': errs[:3]}})
    return
  got = sorted(str(m) for ms in decoded.values() for m in ms)
  want = sorted(str(m) for ms in sent.values() for m in ms)
  if got != want:
    viols.append({'clause': 'wire_messages_differ_from_written', 'details': {'got': got[:4], 'want': want[:4]}})
  # per writer, in order
  per_thread = sorted(str(ms) for ms in decoded.values())
  per_writer = sorted(str(ms) for ms in sent.values())
  if got == want and per_thread != per_writer:
    viols.append({'clause': 'per_writer_order_changed', 'details': {}})


def _check_reads(frames, corrupt, got, nr, viols):
  msgs = [g for g in got if g[1] == 'msg']
  excs = [g for g in got if g[1] == 'exc']
  returned = [(g[2], g[3], g[4], g[5]) for g in msgs]
  valid = list(frames)
  # every returned message must be one of the valid frames, each at most once
  pool = list(valid)
  for m in returned:
    if m in pool:
      pool.remove(m)
    else:
      viols.append({'clause': 'corrupt_or_foreign_frame_delivered_as_message',
                    'details': {'command': m[0], 'payload_len': len(m[3]), 'corruption': corrupt}})
      return
  if pool:
    # a valid frame was lost - allowed only if an error/desync legitimately preceded it
    if not corrupt:
      viols.append({'clause': 'valid_frame_not_delivered', 'details': {'missing': len(pool), 'readers': nr,
                                                                       'excs': [e[2] for e in excs][:3]}})
      return
  if nr == 1 and returned != valid[:len(returned)]:
    viols.append({'clause': 'frames_out_of_order', 'details': {}})
  if corrupt:
    ok_types = ('AdbDataIntegrityError', 'AdbProtocolError')
    # the first error must be the rejection; what follows a rejected frame is a desynchronised
    # link (left-over payload chunks read as headers) and not constrained by the property
    first = [e for e in excs if e[2] != 'UsbReadFailedError'][:1]
    if nr == 1 and first and first[0][2] not in ok_types:
      viols.append({'clause': 'corrupt_frame_raised_other_error', 'details': {'exc': first[0][2], 'msg': first[0][3],
                                                                            'corruption': corrupt}})
    if not any(e[2] in ok_types for e in excs):
      viols.append({'clause': 'corrupt_frame_not_rejected', 'details': {'corruption': corrupt,
                                                                      'excs': [e[2] for e in excs][:3]}})
  else:
    bad = [e for e in excs if e[2] != 'UsbReadFailedError']
    if bad:
      viols.append({'clause': 'valid_frames_raised', 'details': {'exc': bad[0][2], 'msg': bad[0][3]}})
