"""C18 - state subscriptions never lose an update."""
import threading

from simkit import core
from simkit import env

PROPERTY = 'C18'
LEVEL = 'exploration'
TECHNIQUE = ('deterministic simulation: seeded line-level schedules of watcher/updater threads '
             'around the real SubscribableStateMixin, lost-update oracle + deadlock detector')
LEVEL_TEXT = ('seeded exploration of line-level interleavings of 1-2 watcher and 1-2 updater threads on the real '
              'SubscribableStateMixin / FrontendAwareBasePlug / PlugManager.wait_for_plug_update, and of watcher threads '
              'attached to whole simulated test runs (stale-while-waiting invariant: a watcher whose event is not set holds a snapshot '
              'that contains every completed change), and a prompter / responder / passive-watcher scenario on the stock UserInput '
              'plug in which the responder learns of prompts through (state, event) only; every (snapshot, event) pair is checked against the notifications '
              'issued after its state read, and the deadlock detector reports a watcher blocked forever. Sampling, not '
              'exhaustive: the preemption-bounded exhaustive clause of the property is not claimed.')
LEVEL_NOTE = ('trusted: the simulator (simkit), CPython threading.Event/Condition semantics on simulated locks; '
              'pre-emption granularity = one source line of openhtf/workload code plus every lock operation')
DESIGN_REF = 'DESIGN.md section 4, C18'
RULE = ('each run draws a scenario (1-2 watchers, 1-2 updaters x 1-3 updates, subject = mixin / '
        'frontend-aware plug / PlugManager.wait_for_plug_update, or watcher threads attached to a '
        'whole simulated Test.execute()) and a schedule (sync-point switch rate, line-level '
        'pre-emption gap) from the tape; non-trivial = at least one context switch happened '
        'between a state read and the end of a notify; distinct = distinct event-log digests')
ASSUMPTIONS = [
    'pre-emption granularity is one source line of openhtf/workload code plus every lock/event operation',
    'threading.Event/Condition are the real CPython classes running on simulated locks',
]
COMPONENTS = {
    'real': ['openhtf.util.SubscribableStateMixin', 'openhtf.core.base_plugs.FrontendAwareBasePlug',
             'openhtf.plugs.PlugManager.wait_for_plug_update', 'openhtf.plugs.user_input.UserInput (prompt / respond / remove_prompt)',
             'threading.Event/Condition (CPython)',
             'openhtf.core.test_state.TestState (whole-run mode)', 'Test.execute / TestExecutor / PhaseExecutor (whole-run mode)'],
    'simulated': ['locks', 'thread scheduling', 'clock/sleep', 'station server (replaced by watcher threads using asdict_with_event)'],
}
WARMUP = 12
QUICK = {'budget_s': 60}
THOROUGH = {'budget_s': 480}
EXPECTED_PROBES = ['notify_inside_snapshot_window', 'two_watchers_one_notify', 'watcher_woken',
                   'checked_while_watcher_waits', 'whole_run_watcher_saw_completed', 'user_input_scenario']

_mods = {}


def setup():
  env.import_openhtf()
  from workloads import wsub
  _mods['wsub'] = wsub
  from wx import common
  common.setup()
  from workloads import wexec_watch
  _mods['wexec_watch'] = wexec_watch


def run_one(tape):
  mode = tape.weighted([(4, 'micro'), (5, 'exec'), (2, 'user_input')], 'mode')
  if mode == 'exec':
    return run_exec(tape)
  if mode == 'user_input':
    return run_user_input(tape)
  return run_micro(tape)


# -------------------------------------------------------- UserInput plug (frontend-aware)
def run_user_input(tape):
  """The stock UserInput plug: a prompter (phase side), a responder that learns of prompts through
  (state, event) only, and passive watchers.  Every prompt must be answered (a lost notification
  leaves the responder asleep until the prompt times out) and no watcher may keep a stale prompt."""
  wsub = _mods['wsub']
  from openhtf.plugs import user_input
  env.hygiene()
  n = 1 + tape.draw(3, 'nprompts')
  n_w = tape.draw(3, 'n_watchers')
  knobs = core.Knobs(p_sync=tape.pick([0, 100, 300, 600], 'p_sync'), gap_mean=tape.pick([0, 2, 4, 8, 20], 'gap'),
                     hot_span=0, max_steps=300000, max_time=100000.0)
  viols = []
  probes = {'user_input_scenario': 1}
  out = []
  pairs = {}
  done = {}
  with env.NoGC(25):
    sim = core.Sim(tape, env.TRACE_PREFIXES, knobs)
    sim.begin()
    try:
      plug = user_input.UserInput()
      ths = [threading.Thread(target=wsub.ui_prompter, args=(sim, plug, n, out), name='prompter'),
             threading.Thread(target=wsub.ui_responder, args=(sim, plug, n, out), name='responder')]
      ws = [threading.Thread(target=wsub.ui_watcher, args=(sim, plug, w, done, pairs), name='uiwatcher%d' % w)
            for w in range(n_w)]
      allt = ths + ws
      order = list(range(len(allt)))
      for i in range(len(order) - 1, 0, -1):
        j = tape.draw(i + 1, 'shuffle')
        order[i], order[j] = order[j], order[i]
      for t in allt:
        t.daemon = True
      for i in order:
        allt[i].start()
      for t in ths:
        t.join()
      done['over'] = True
      # the final state is "no prompt": every watcher either saw it or has its event set
      for w in range(n_w):
        if w in pairs:
          seen, ev = pairs[w]
          if seen is not None and not ev.is_set():
            viols.append({'clause': 'watcher_keeps_answered_prompt_without_notification', 'details': {'watcher': w, 'sees': seen}})
      plug.notify_update()   # lets passive watchers finish
      for t in ws:
        t.join()
    except core.Deadlock as e:
      viols.append({'clause': 'watcher_blocked_forever', 'details': {'blocked': str(e)[:300], 'subject': 'user_input'}})
    except core.SimAbort:
      pass
    finally:
      failed = sim.failed
      sim.end()
  if failed is None:
    for item in out:
      if item[0] == 'unanswered':
        viols.append({'clause': 'prompt_not_answered', 'details': {'prompt': item[1]}})
      elif item[0] == 'responder_timeout':
        viols.append({'clause': 'responder_never_notified_of_prompt', 'details': {'answered': item[1], 'of': n}})
      elif item[0] == 'answered' and item[2] != 'answer to question %d' % item[1]:
        viols.append({'clause': 'prompt_got_wrong_answer', 'details': {'prompt': item[1], 'answer': item[2]}})
    if not any(i[0] == 'done' for i in out) and not viols:
      viols.append({'clause': 'prompter_did_not_finish', 'details': {'out': [list(map(str, i)) for i in out][:4]}})
  abnormal = None
  if failed in ('steplimit', 'hang', 'unwind'):
    abnormal = '%s: %s' % (failed, sim.failed_info)
  return {
      'violations': viols[:1], 'digest': sim.digest(), 'sched': sim.sched_digest(), 'nontrivial': sim.switches > 2,
      'faults': {}, 'probes': probes, 'steps': sim.steps, 'switches': sim.switches, 'preempts': sim.preemptions,
      'sim_s': sim.now - core.T0, 'sample': {'mode': 'user_input', 'prompts': n, 'watchers': n_w,
                                             'events': [list(e[2:]) for e in sim.log[:30]]},
      'abnormal': abnormal, 'poison': bool(failed),
  }


# ------------------------------------------------------------ whole-run mode
def _extract(pair):
  """What a station server would serialise from the snapshot, taken at once (untraced = atomic)."""
  snap, ev = pair
  ps = snap.get('running_phase_state')
  meas = {}
  if ps:
    for n, m in ps['measurements'].items():
      if 'measured_value' in m:
        v = m['measured_value']
        meas[n] = list(v) if isinstance(v, list) else v   # (the rendered list is the live cache)
  view = {'status': snap['status'], 'phase': ps['name'] if ps else None, 'meas': meas,
          'logs': set(l['message'] for l in snap['test_record']['log_records']),
          'n_phases': len(snap['test_record']['phases'])}
  return view, ev


def run_exec(tape):
  """Watcher threads attached to a whole Test.execute(): no watcher that believes it is up to date
  (event not set) may hold a snapshot that lacks a completed change; every watcher sees COMPLETED."""
  import threading as _threading
  from wx import gen as gen_mod
  from wx import run as run_mod
  ww = _mods['wexec_watch']
  strict = tape.chance(700, 'strict')
  if strict:
    prof = gen_mod.profile(max_nodes=6, max_depth=2, p_meas=700, p_logs=600, p_attach=100, p_diag=150, p_dur=300,
                           p_fault_beh=200, p_plug=150, p_test_start=150, p_monitor=300, max_meas=5)
  else:
    prof = gen_mod.profile(max_nodes=6, max_depth=2, p_meas=700, max_meas=4, p_logs=700, p_dur=200, p_fault_beh=250, p_plug=200,
                           p_timeout=150, abort=500, abort2=200, p_test_start=200, plug_faults=150)
  spec = gen_mod.Gen(tape, prof).program()
  n_w = 1 + tape.draw(2, 'n_watchers')
  reg = {}
  viols = []
  probes = {}
  holder = {}

  def on_update(kind, phase, name, val):
    for wid in sorted(reg):
      view, ev = reg[wid]
      if ev.is_set():
        continue
      probes['checked_while_watcher_waits'] = 1
      bad = None
      if kind == 'phase' and view['phase'] != phase:
        bad = {'clause': 'running_phase_change_not_notified', 'details': {'watcher_sees': view['phase']}}
      elif kind == 'meas' and (view['phase'] != phase or view['meas'].get(name, '<unset>') != val):
        bad = {'clause': 'measurement_change_not_notified', 'details': {
            'watcher_sees': repr(view['meas'].get(name, '<unset>')), 'n_set_in_snapshot': len(view['meas'])}}
      elif kind == 'log' and name not in view['logs']:
        bad = {'clause': 'log_record_not_notified', 'details': {}}
      elif kind == 'mon' and view['phase'] == phase and len(view['meas'].get(name) or ()) < val:
        # a monitor thread assigns its samples through one retained measurement handle
        bad = {'clause': 'monitor_sample_not_notified', 'details': {'samples_taken': val,
                                                                   'watcher_sees': len(view['meas'].get(name) or ())}}
      elif (kind == 'dimmeas' and view['phase'] == phase and not val[2]
            and [val[0], val[1]] not in [list(x) for x in (view['meas'].get(name) or ())]):
        bad = {'clause': 'dimensioned_override_not_notified', 'details': {'watcher_sees': repr(view['meas'].get(name))[:60]}}
      if bad is not None and not viols:
        viols.append(bad)

  def extra(sim, ctx, test, threads):
    holder['sim'] = sim
    if strict:
      ctx.on_update = on_update
    wout = ctx.wout
    for w in range(n_w):
      th = _threading.Thread(target=ww.cwatcher, args=(ctx, test, w, reg, wout, _extract), name='cwatcher%d' % w)
      th.daemon = True
      th.start()
      threads.append(('w', th))

  obs = run_mod.run_spec(tape, spec, extra_threads=extra, style=tape.draw(4, 'style'))
  sim = obs.sim
  if obs.failed in ('deadlock', 'hang'):
    info = obs.failed_info or ''
    if 'cwatcher' in info or 'watcher' in info:
      viols.append({'clause': 'watcher_blocked_forever_on_whole_run', 'details': {'blocked': info[:200]}})
  elif obs.failed is None:
    done = set(e[4] for e in obs.log if e[3] == 'cwatch_done')
    nostate = set(e[4] for e in obs.log if e[3] == 'cwatch_no_state')
    for w in range(n_w):
      if w not in done and w not in nostate:
        viols.append({'clause': 'watcher_did_not_observe_completed', 'details': {'watcher': w}})
        break
    if done:
      probes['whole_run_watcher_saw_completed'] = 1
  res = run_mod.result_from(obs, viols[:1], probes, True, {'mode': 'exec', 'strict': strict, 'watchers': n_w})
  if obs.failed in ('deadlock', 'hang') and not viols and not res.get('abnormal'):
    res['probes']['other_deadlock_left_to_C04'] = 1
  return res


def run_micro(tape):
  wsub = _mods['wsub']
  env.hygiene()
  subject_kind = tape.weighted([(4, 'mixin'), (2, 'plug'), (2, 'plugmgr')], 'subject')
  n_w = 1 + tape.draw(2, 'n_watchers')
  n_u = 1 + tape.draw(2, 'n_updaters')
  counts = [1 + tape.draw(3, 'count') for _ in range(n_u)]
  pauses = [tape.pick([0, 0, 0.001, 0.01], 'pause') for _ in range(n_u)]
  knobs = core.Knobs(
      p_sync=tape.pick([0, 100, 300, 600], 'p_sync'),
      gap_mean=tape.pick([0, 2, 4, 8, 20], 'gap'),
      hot_span=0, max_steps=200000, max_time=100000.0)
  final = (counts[0], counts[1] if n_u > 1 else 0)
  viols = []
  probes = {}
  with env.NoGC(25):
    sim = core.Sim(tape, env.TRACE_PREFIXES, knobs)
    pairs = []
    plug_out = []
    sim.begin()
    threads = []
    try:
      if subject_kind == 'mixin':
        subj = wsub.Subject(sim)
      else:
        subj = wsub.PlugSubject(sim)
      manager = None
      if subject_kind == 'plugmgr':
        from openhtf import plugs
        manager = plugs.PlugManager()
        manager.update_plug(wsub.PlugSubject, subj)
        pname = manager.get_plug_name(wsub.PlugSubject)
      for w in range(n_w):
        if manager is not None:
          t = threading.Thread(target=wsub.wait_for_plug_update_watcher,
                               args=(sim, manager, pname, w, final, plug_out), name='watcher%d' % w)
        else:
          t = threading.Thread(target=wsub.watcher, args=(sim, subj, w, final, pairs), name='watcher%d' % w)
        t.daemon = True
        threads.append(t)
      for u in range(n_u):
        t = threading.Thread(target=wsub.updater, args=(sim, subj, u, counts[u], pauses[u]), name='updater%d' % u)
        t.daemon = True
        threads.append(t)
      order = list(range(len(threads)))
      # start order from the tape
      for i in range(len(order) - 1, 0, -1):
        j = tape.draw(i + 1, 'shuffle')
        order[i], order[j] = order[j], order[i]
      for i in order:
        threads[i].start()
      for t in threads:
        t.join()
    except core.Deadlock as e:
      viols.append({'clause': 'watcher_blocked_forever',
                    'details': {'blocked': str(e)[:300], 'subject': subject_kind}})
    except core.SimAbort as e:
      pass
    finally:
      failed = sim.failed
      # oracle over the event log (before unwinding)
      _oracle(sim, pairs, final, viols, probes, subject_kind)
      sim.end()
  for item in plug_out:
    viols.append({'clause': 'plug_wait_missed_update', 'details': {'watcher': item[1], 'subject': subject_kind}})
  abnormal = None
  if failed in ('steplimit', 'hang', 'unwind'):
    abnormal = '%s: %s' % (failed, sim.failed_info)
  return {
      'violations': viols, 'digest': sim.digest(), 'sched': sim.sched_digest(),
      'nontrivial': bool(probes.get('switch_in_window')),
      'faults': {}, 'probes': probes, 'steps': sim.steps, 'switches': sim.switches,
      'preempts': sim.preemptions, 'sim_s': sim.now - core.T0,
      'sample': {'mode': 'micro', 'subject': subject_kind, 'watchers': n_w, 'updaters': n_u,
                 'updates': counts, 'pauses': pauses, 'knobs': {'p_sync': knobs.p_sync, 'gap_mean': knobs.gap_mean},
                 'events': [list(e[2:]) for e in sim.log[:40]]},
      'abnormal': abnormal, 'poison': bool(failed),
  }


def _oracle(sim, pairs, final, viols, probes, subject_kind):
  """Lost-update oracle over (state_read, pair, notify_begin, notify_end)."""
  log = sim.log
  # per thread: last state_read seq before each 'pair' event
  last_read = {}
  pair_read = {}   # pair seq -> state_read seq
  notifies = []    # (begin_seq, end_seq or None, tid)
  open_n = {}
  for e in log:
    seq, _, tid, kind = e[:4]
    if kind == 'state_read':
      last_read[tid] = seq
    elif kind == 'pair':
      pair_read[seq] = last_read.get(tid)
    elif kind == 'notify_begin':
      open_n[tid] = seq
    elif kind == 'notify_end':
      notifies.append((open_n.pop(tid), seq, tid))
  for tid, b in open_n.items():
    notifies.append((b, None, tid))
  # context switch inside a window?  (non-triviality + probes)
  tids = [e[2] for e in log]
  for i in range(1, len(log)):
    if log[i][2] != log[i - 1][2]:
      probes['switch_in_window'] = probes.get('switch_in_window', 0) + 1
      break
  by_event_pairs = {}
  for (wid, pseq, snap, ev) in pairs:
    rseq = pair_read.get(pseq)
    if rseq is None:
      continue
    required = False
    for (b, e_, _) in notifies:
      if b > rseq and e_ is not None:
        required = True
        if b < pseq:
          probes['notify_inside_snapshot_window'] = probes.get('notify_inside_snapshot_window', 0) + 1
    if required:
      probes['watcher_woken'] = probes.get('watcher_woken', 0) + 1
      if not ev.is_set():
        viols.append({'clause': 'lost_update', 'details': {
            'watcher': wid, 'snapshot': [snap['a'], snap['b']], 'state_read_seq': rseq,
            'subject': subject_kind,
            'later_notifies': [b for (b, e_, _) in notifies if b > rseq and e_ is not None][:4]}})
    elif (snap['a'], snap['b']) != final and not ev.is_set() and sim.failed is None:
      # nothing was notified after the snapshot, yet the state moved on
      cur_a = max([e[4] for e in log if e[3] == 'state_read'] + [0])
    # one notification wakes every watcher registered before it
  for (b, e_, _) in notifies:
    if e_ is None:
      continue
    regs = [p for p in pairs if pair_read.get(p[1]) is not None and pair_read[p[1]] < b and p[1] < b]
    if len(regs) >= 2:
      probes['two_watchers_one_notify'] = probes.get('two_watchers_one_notify', 0) + 1
      for (wid, pseq, snap, ev) in regs:
        if not ev.is_set():
          viols.append({'clause': 'notify_missed_registered_watcher',
                        'details': {'watcher': wid, 'notify_seq': b, 'subject': subject_kind}})
