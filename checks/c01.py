"""C01 - no false PASS."""
from wx import common
from wx import gen
from wx import oracles

PROPERTY = 'C01'
LEVEL = 'exploration'
TECHNIQUE = ('deterministic simulation of Test.execute() on generated programs under seeded schedules and '
             'user-code faults; outcome checked against a reference executor model + PASS-soundness invariants')
LEVEL_TEXT = ('seeded exploration: generated test programs (trees of phases/sequences/groups/subtests/branches/'
              'checkpoints with scripted per-invocation behaviours, measurements, diagnosers, settings) are executed '
              'by the real Test.execute() under the simulator; (a) a PASS / True result is checked for soundness '
              'against the real record and call log (no failed/errored phase, measurement, diagnosis, subtest; not all '
              'skipped; executor thread did not die; the bodies that ran are the declared ones), (b) the outcome must be '
              'in the allowed set computed by the independent reference model M_exec. Sampling, not exhaustive.')
LEVEL_NOTE = ('trusted: simkit scheduler/clock, the reference model wx/model.py (DESIGN.md Appendix A), generated '
              'workload code; of the abort rules only "abort returned before the final teardown => ABORTED" is checked here (15% of the runs), the rest belongs to C04; timing-ambiguous runs (duration inside '
              '[deadline, deadline+3s)) only get the soundness half')
DESIGN_REF = 'DESIGN.md section 4, C01'
RULE = ('one run = one generated program (<= 12 nodes, depth <= 3, <= 3 scripted invocations per phase) + settings + '
        'schedule knobs from the tape; non-trivial = the program has a non-phase node, a fault or a model rule probe '
        'fired; distinct = distinct event-log digests')
ASSUMPTIONS = common.W_EXEC_ASSUMPTIONS
COMPONENTS = common.W_EXEC_COMPONENTS
QUICK = {'budget_s': 40}
THOROUGH = {'budget_s': 480}
EXPECTED_PROBES = ['pass_runs', 'abort_delivered', 'm_stop_on_first_failure', 'm_run_if_false', 'm_skip_after_subtest_fail',
                   'm_branch_not_taken', 'm_timeout']

PROF = gen.profile(p_timeout=60, p_settings=400, p_profile=100, p_monitor=150)
# "an abort gives ABORTED": one operator abort from another thread at a tape-chosen step
PROF_ABORT = gen.profile(p_timeout=60, p_settings=400, abort=1000, abort2=0, sigint=0, p_profile=100, p_monitor=150)


def setup():
  common.setup()


def c01_abort(obs, act, viols, probes):
  """Only the outcome half of the abort rules (everything else about aborts is C04's)."""
  mine = []
  pr = {}
  oracles.c04(obs, act, mine, pr)
  if pr.get('aborts_delivered'):
    probes['abort_delivered'] = 1
  for v in mine:
    if v['clause'] == 'abort_before_final_teardown_but_not_ABORTED':
      viols.append(v)


def run_one(tape):
  if tape.chance(150, 'abort_mode'):
    return common.run_with(tape, PROF_ABORT, [oracles.c01, c01_abort])
  return common.run_with(tape, PROF, [oracles.c01])
