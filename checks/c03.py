"""C03 - PhaseGroup teardown always runs once the group was entered"""
from wx import common
from wx import gen
from wx import oracles

PROPERTY = 'C03'
LEVEL = 'exploration'
TECHNIQUE = ('deterministic simulation of Test.execute() on nested-group programs with user-code faults and one operator abort (thread or SIGINT) at a seeded line step; the body invocation sequence must be one a single abort can produce according to the reference model (enumerated abort points)')
LEVEL_TEXT = ('seeded exploration: generated nestings of groups in sequences/subtests/branches/groups with every main-ending fault (exception, STOP, timeout, failed subtest, nested failure, terminal teardown node) and, in most runs, one operator abort landing at a tape-chosen workload event + line offset. Oracle: the observed body invocation sequence (names and multiplicities, in order) must be a member of the set computed by the reference model for "abort takes effect at point k" over all points k (node boundaries, repeat iterations, before/inside each body) - i.e. teardown nodes of entered groups ran exactly once, after main stopped, and nothing of a non-entered group ran; and no phase body starts after plug tearDown began. Sampling of schedules and abort positions, not exhaustive.')
LEVEL_NOTE = ('trusted: simkit, wx/model.py incl. its abort-point semantics (DESIGN.md Appendix A + C03); runs with timing-ambiguous durations or the known run_if re-evaluation (C05 finding) are excluded from the membership test')
DESIGN_REF = 'DESIGN.md section 4, C03'
RULE = ('one run = generated program (<= 14 nodes, depth <= 4, group-heavy) + faults + (70%%) one abort at (event index, line offset) + schedule; non-trivial = has a group and (an abort was delivered or a fault fired); distinct = distinct event-log digests')
ASSUMPTIONS = common.W_EXEC_ASSUMPTIONS
COMPONENTS = common.W_EXEC_COMPONENTS
QUICK = {'budget_s': 40}
THOROUGH = {'budget_s': 480}
EXPECTED_PROBES = ['abort_runs', 'abort_changed_invocations', 'abort_between_phases', 'abort_during_teardown_phase', 'abort_during_abortable_phase']

PROF = gen.profile(max_nodes=14, max_depth=4, w_phase=8, w_group=7, w_subtest=3, w_branch=2, w_ckpt_fail=1, w_ckpt_diag=1, p_fault_beh=300, p_timeout=60, p_dur=350, abort=700, sigint=250, p_plug=150, p_test_start=100, p_profile=350, p_monitor=100)


def setup():
  common.setup()


def _pre(tape, spec):
  # 15% of the runs: the same Test object has completed an undisturbed execution before the
  # observed (aborted) one
  spec['prior_run'] = tape.chance(150, 'prior_run')


def run_one(tape):
  return common.run_with(tape, PROF, [oracles.c03], pre=_pre)
