"""C10 - serialized (base-type / JSON) view always equals the in-memory record."""
import base64
import io
import json

from simkit import core
from simkit import env
from wx import common
from wx import wmeas

PROPERTY = 'C10'
LEVEL = 'exploration'
TECHNIQUE = ('seeded operation histories (set / override / transform / dimensioned / attach / log interleaved with reads of '
             'the live view, optionally a concurrent station-style watcher thread) inside a real phase under the simulator; '
             'cached renderings compared with from-scratch renderings; strict-JSON round trip of the final record')
LEVEL_TEXT = ('seeded histories with live reads: inside a real phase run by the real executor, up to 12 operations over 1-3 '
              'measurements (overrides, transforms, 1- and 2-dimensional coordinates, values built from None, bool, int, '
              'float incl. NaN / +-inf, str, enums, lists / tuples / str-keyed dicts), attachments and log lines are '
              'interleaved with reads of TestState.as_base_types() (the station API rendering), optionally while a watcher '
              'thread polls asdict_with_event(). At every read the cached rendering of each measurement (outcome, '
              'measured_value) and of the attachments must equal a from-scratch rendering of the in-memory objects made '
              'by an independent renderer; for the final record every record list of the TestRecord must be represented '
              'and the cached phase renderings must equal fresh ones; OutputToJSON output must be strict JSON (NaN / '
              'Infinity tokens rejected unless allow_nan) that decodes to the same structure, and inlined attachments must '
              'round-trip byte-for-byte through base64. Reads racing a mutation inside one openhtf call are not '
              'constrained (the station server tolerates them).')
LEVEL_NOTE = 'trusted: the independent renderer fresh_base() in wx/wmeas.py; json (CPython)'
DESIGN_REF = 'DESIGN.md section 4, C10'
RULE = ('one run = one history with >= 0 live reads + final record + JSON sink; non-trivial = a live read happened after an '
        'assignment, or the record holds a dimensioned / transformed / non-finite value or an attachment; distinct = '
        'distinct event-log digests')
ASSUMPTIONS = ['live reads are compared between openhtf calls, not inside one']
COMPONENTS = {
    'real': ['openhtf.core.measurements (as_base_types caches)', 'openhtf.core.test_state.PhaseState / TestState.as_base_types',
             'openhtf.core.test_record.TestRecord.as_base_types', 'openhtf.util.data.convert_to_base_types',
             'openhtf.output.callbacks.json_factory.OutputToJSON'],
    'simulated': ['locks, scheduling, clock', 'station server (reader calls as_base_types / asdict_with_event)'],
    'reference_model': 'wx/wmeas.py fresh_base()'}
WARMUP = 6
QUICK = {'budget_s': 40}
THOROUGH = {'budget_s': 480}
EXPECTED_PROBES = ['live_read_after_assignment', 'dimensioned_value', 'transformed_value', 'non_finite_value',
                   'attachment', 'json_round_trip', 'allow_nan', 'record_lists_of_whole_programs', 'rendered_subtests',
                   'rendered_branches', 'rendered_checkpoints']


def setup():
  common.setup()
  import workloads.mbodies  # noqa: F401  pylint: disable=unused-import,g-import-not-at-top


def _strict_loads(text):
  def bad(c):
    raise ValueError('non-strict JSON constant %s' % c)
  return json.loads(text, parse_constant=bad)


PROF_LISTS = None


def run_record_lists(tape):
  """Whole generated programs (subtests, branches, checkpoints, diagnoses, terminal results inside
  subtests, aborts): every record list of the final TestRecord is rendered as it is in memory."""
  global PROF_LISTS
  from wx import gen as gen_mod
  from wx import oracles
  if PROF_LISTS is None:
    PROF_LISTS = gen_mod.profile(max_nodes=10, max_depth=3, w_phase=8, w_group=3, w_subtest=5, w_branch=3, w_ckpt_fail=2,
                                 w_ckpt_diag=2, p_fault_beh=350, p_diag=400, p_meas=300, p_test_diag=300, p_attach=200,
                                 p_logs=300, abort=150)

  def lists_oracle(obs, act, viols, probes):
    rec = act.rec
    if rec is None or obs.failed is not None:
      return
    probes['record_lists_of_whole_programs'] = 1
    bt = rec.as_base_types()
    pairs = [
        ('subtests', [(x.get('name'), x.get('outcome')) for x in bt.get('subtests', [])],
         [(x.name, x.outcome.name if x.outcome else None) for x in rec.subtests]),
        ('branches', [(x.get('name'), x.get('branch_taken')) for x in bt.get('branches', [])],
         [(x.name, x.branch_taken) for x in rec.branches]),
        ('checkpoints', [(x.get('name'), str(x.get('result'))[:60]) for x in bt.get('checkpoints', [])],
         [(x.name, str(_fresh(x.result))[:60]) for x in rec.checkpoints]),
        ('diagnoses', [(x.get('result'), bool(x.get('is_failure'))) for x in bt.get('diagnoses', [])],
         [(_fresh(d.result), bool(d.is_failure)) for d in rec.diagnoses]),
        ('phases', [(x.get('name'), x.get('outcome'), x.get('subtest_name')) for x in bt.get('phases', [])],
         [(p.name, p.outcome.name if p.outcome else None, p.subtest_name) for p in rec.phases]),
    ]
    if bt.get('outcome') != (rec.outcome.name if rec.outcome else None):
      viols.append({'clause': 'rendered_test_outcome_differs', 'details': {'rendered': bt.get('outcome')}})
    for name, rendered, fresh in pairs:
      if rendered != fresh:
        i = 0
        while i < min(len(rendered), len(fresh)) and rendered[i] == fresh[i]:
          i += 1
        viols.append({'clause': 'rendered_record_list_differs', 'details': {
            'list': name, 'rendered': [list(map(str, r)) for r in rendered[i:i + 2]],
            'in_memory': [list(map(str, r)) for r in fresh[i:i + 2]]}})
        break
      if fresh and name in ('subtests', 'branches', 'checkpoints'):
        probes['rendered_' + name] = 1

  return common.run_with(tape, PROF_LISTS, [lists_oracle])


def _fresh(x):
  from openhtf.util import data
  return data.convert_to_base_types(x)


def run_one(tape):
  if tape.chance(250, 'record_lists_mode'):
    return run_record_lists(tape)
  sim, spec, exp, rec, obs, failed = wmeas.run(tape, for_c10=True)
  viols = []
  probes = {}
  if failed in ('deadlock', 'hang'):
    viols.append({'clause': 'stuck', 'details': {'info': (sim.failed_info or '')[:200]}})
  elif failed is None and rec is not None:
    assigned = False
    dims = dict((m['name'], m['dims']) for m in spec['meas'])
    tfs = dict((m['name'], m['transform']) for m in spec['meas'])
    # ---- live reads
    for item in obs['reads']:
      ops_before = spec['ops'][:item['op']]
      if any(o[0] in ('set', 'setattr', 'setdim') for o in ops_before):
        probes['live_read_after_assignment'] = 1
      for name, r in item['meas'].items():
        if r['rendered_outcome'] != r['outcome']:
          viols.append({'clause': 'live_view_outcome_stale', 'details': {
              'measurement': name, 'rendered': r['rendered_outcome'], 'in_memory': r['outcome'], 'dims': dims[name],
              'op_index': item['op']}})
          break
        if r['is_set'] != r['rendered_has_value']:
          viols.append({'clause': 'live_view_value_missing', 'details': {'measurement': name, 'set': r['is_set'],
                                                                        'dims': dims[name]}})
          break
        if r['is_set'] and not wmeas.same_value(wmeas.to_json_shape(r['rendered_value']),
                                                wmeas.to_json_shape(r['fresh_value'])):
          viols.append({'clause': 'live_view_value_stale_or_untransformed', 'details': {
              'measurement': name, 'rendered': repr(r['rendered_value'])[:70], 'fresh': repr(r['fresh_value'])[:70],
              'dims': dims[name], 'transform': tfs[name]}})
          break
      if item.get('att') and item['att'][0] != item['att'][1]:
        viols.append({'clause': 'live_view_attachments_differ', 'details': {'rendered': sorted(item['att'][0]),
                                                                           'in_memory': sorted(item['att'][1])}})
      # (a logging thread may be between its two appends when the first count is taken: -1)
      if item.get('nlogs') and not (item['nlogs'][1] - (1 if spec.get('chatter') else 0) <= item['nlogs'][0] <= item['nlogs'][2]):
        viols.append({'clause': 'live_view_log_records_differ', 'details': {'rendered': item['nlogs'][0],
                                                                           'in_memory': list(item['nlogs'][1:])}})
      if viols:
        break
    # ---- final record: every list represented, cached == fresh
    if not viols:
      bt = rec.as_base_types()
      for key, attr_ in (('phases', 'phases'), ('subtests', 'subtests'), ('branches', 'branches'),
                         ('checkpoints', 'checkpoints'), ('diagnoses', 'diagnoses'), ('log_records', 'log_records'),
                         ('diagnosers', 'diagnosers')):
        if key not in bt:
          viols.append({'clause': 'record_list_not_represented', 'details': {'list': key}})
        elif len(bt[key]) != len(getattr(rec, attr_)):
          viols.append({'clause': 'record_list_length_differs', 'details': {'list': key, 'rendered': len(bt[key]),
                                                                           'in_memory': len(getattr(rec, attr_))}})
      # log records: same entries in the same order
      if not viols and 'log_records' in bt:
        for i, (ld, l) in enumerate(zip(bt['log_records'], rec.log_records)):
          if ld.get('message') != l.message or ld.get('logger_name') != l.logger_name or ld.get('level') != l.level:
            viols.append({'clause': 'cached_log_record_differs', 'details': {
                'index': i, 'rendered': str(ld.get('message'))[:50], 'in_memory': l.message[:50]}})
            break
      for pd, p in zip(bt.get('phases', []), rec.phases):
        if pd.get('name') != p.name or pd.get('outcome') != (p.outcome.name if p.outcome else None):
          viols.append({'clause': 'cached_phase_differs', 'details': {'phase': p.name, 'rendered_outcome': pd.get('outcome')}})
          break
        for name, mobj in (p.measurements or {}).items():
          md = (pd.get('measurements') or {}).get(name)
          if md is None:
            viols.append({'clause': 'cached_phase_measurement_missing', 'details': {'measurement': name}})
            break
          if md.get('outcome') != mobj.outcome.name:
            viols.append({'clause': 'record_outcome_stale', 'details': {'measurement': name, 'rendered': md.get('outcome'),
                                                                       'in_memory': mobj.outcome.name}})
            break
          if mobj.measured_value.is_value_set:
            fresh = wmeas.fresh_base(mobj.measured_value.value)
            if 'measured_value' not in md or not wmeas.same_value(wmeas.to_json_shape(md['measured_value']),
                                                                  wmeas.to_json_shape(fresh)):
              viols.append({'clause': 'record_value_stale_or_untransformed', 'details': {
                  'measurement': name, 'rendered': repr(md.get('measured_value'))[:70], 'fresh': repr(fresh)[:70],
                  'dims': dims.get(name), 'transform': tfs.get(name)}})
              break
            if dims.get(name):
              probes['dimensioned_value'] = 1
            if tfs.get(name):
              probes['transformed_value'] = 1
            if 'nan' in repr(fresh) or 'inf' in repr(fresh):
              probes['non_finite_value'] = 1
        for an, a in p.attachments.items():
          probes['attachment'] = 1
          ad = (pd.get('attachments') or {}).get(an)
          if not isinstance(ad, dict) or ad.get('sha1') != a.sha1 or ad.get('mimetype') != a.mimetype:
            viols.append({'clause': 'cached_attachment_differs', 'details': {'attachment': an,
                                                                            'rendered_type': type(ad).__name__}})
            break
        if viols:
          break
    # ---- JSON sink
    if not viols:
      from openhtf.output.callbacks import json_factory
      buf = io.BytesIO()
      allow_nan = spec['allow_nan']
      if allow_nan:
        probes['allow_nan'] = 1
      try:
        json_factory.OutputToJSON(buf, inline_attachments=spec['inline_attachments'], allow_nan=allow_nan)(rec)
        text = buf.getvalue().decode()
      except Exception as e:  # pylint: disable=broad-except
        text = None
        has_nonfinite = any('nan' in repr(wmeas.fresh_base(m.measured_value.value)) or
                            'inf' in repr(wmeas.fresh_base(m.measured_value.value))
                            for p in rec.phases for m in (p.measurements or {}).values() if m.measured_value.is_value_set)
        viols.append({'clause': 'json_output_raised', 'details': {'exc': type(e).__name__, 'msg': str(e)[:100],
                                                                 'allow_nan': allow_nan}})
      if text is not None:
        try:
          doc = _strict_loads(text) if not allow_nan else json.loads(text)
          probes['json_round_trip'] = 1
        except ValueError as e:
          doc = None
          viols.append({'clause': 'json_not_strict', 'details': {'msg': str(e)[:100], 'allow_nan': allow_nan}})
        if doc is not None:
          for pd, p in zip(doc.get('phases', []), rec.phases):
            for name, mobj in (p.measurements or {}).items():
              md = (pd.get('measurements') or {}).get(name) or {}
              if mobj.measured_value.is_value_set and not allow_nan:
                fresh = wmeas.to_json_shape(wmeas.fresh_base(mobj.measured_value.value))
                if not wmeas.same_value(md.get('measured_value'), fresh):
                  viols.append({'clause': 'json_value_differs', 'details': {
                      'measurement': name, 'json': repr(md.get('measured_value'))[:70], 'fresh': repr(fresh)[:70]}})
                  break
              if md.get('outcome') != mobj.outcome.name:
                viols.append({'clause': 'json_outcome_differs', 'details': {'measurement': name}})
                break
            if spec['inline_attachments']:
              for an, a in p.attachments.items():
                ad = (pd.get('attachments') or {}).get(an) or {}
                try:
                  data = base64.standard_b64decode(ad.get('data', ''))
                except Exception:  # pylint: disable=broad-except
                  data = None
                if data != a.data:
                  viols.append({'clause': 'attachment_does_not_round_trip', 'details': {'attachment': an}})
                  break
            if viols:
              break
        # the JSON sink must not leave non-base types in the record's cached rendering
        if not viols:
          bt2 = rec.as_base_types()
          for pd in bt2.get('phases', []):
            for an, ad in (pd.get('attachments') or {}).items():
              if not isinstance(ad, dict):
                viols.append({'clause': 'cached_rendering_polluted_by_json_sink', 'details': {
                    'attachment': an, 'type': type(ad).__name__, 'inline_attachments': spec['inline_attachments']}})
                break
            if viols:
              break
  for v in viols:
    v['details']['concurrent_reader'] = bool(spec['watcher'])
    mname = v['details'].get('measurement')
    v['details']['dimensioned'] = bool(dims.get(mname)) if (failed is None and rec is not None and mname) else None
  return {
      'violations': viols[:1], 'digest': sim.digest(), 'sched': sim.sched_digest(),
      'nontrivial': bool(probes), 'faults': {}, 'probes': probes, 'steps': sim.steps, 'switches': sim.switches,
      'preempts': sim.preemptions, 'sim_s': sim.now - core.T0,
      'sample': {'measurements': [{k: m[k] for k in ('name', 'dims', 'transform')} for m in spec['meas']],
                 'ops': spec['ops'][:12], 'reads': len(obs['reads']), 'watcher': spec['watcher'],
                 'inline_attachments': spec['inline_attachments'], 'allow_nan': spec['allow_nan']},
      'abnormal': ('%s: %s' % (failed, sim.failed_info)) if failed in ('steplimit', 'unwind') else None,
      'poison': bool(failed),
  }
