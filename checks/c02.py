"""C02 - node execution follows docs/event_sequence.md."""
from wx import common
from wx import gen
from wx import oracles

PROPERTY = 'C02'
LEVEL = 'exploration'
TECHNIQUE = ('deterministic simulation of Test.execute() on generated node trees; refinement check of the body '
             'invocation sequence and phase/subtest/branch/checkpoint records against a reference executor model')
LEVEL_TEXT = ('seeded exploration: abort-free generated node trees are executed by the real executor under seeded '
              'schedules (executor / phase / watcher thread interleavings, virtual-time timeouts); the sequence of body '
              'invocations and the phase, subtest, branch and checkpoint records must equal, in order, those of the '
              'independent reference interpreter M_exec. The "exhaustive up to a size bound" clause is NOT claimed '
              '(that is model checking); evidence reports distinct program shapes and rule-interaction probes.')
LEVEL_NOTE = ('trusted: simkit, the reference model wx/model.py written from docs/event_sequence.md (DESIGN.md '
              'Appendix A; places where the document is silent follow the pinned implementation and are marked there)')
DESIGN_REF = 'DESIGN.md section 4, C02'
RULE = ('one run = one generated abort-free program (<= 14 nodes, depth <= 4) + schedule; non-trivial = the tree has a '
        'non-phase node or a model rule probe fired; distinct = distinct event-log digests')
ASSUMPTIONS = common.W_EXEC_ASSUMPTIONS
COMPONENTS = common.W_EXEC_COMPONENTS
QUICK = {'budget_s': 40}
THOROUGH = {'budget_s': 480}
EXPECTED_PROBES = ['m_skip_after_subtest_fail', 'm_branch_taken', 'm_branch_not_taken', 'm_group_skipped',
                   'm_teardown_after_terminal_main', 'm_group_setup_terminal', 'm_ckpt_STOP', 'm_ckpt_FAIL_SUBTEST',
                   'm_fail_subtest']

PROF = gen.profile(max_nodes=14, max_depth=4, w_phase=8, w_group=4, w_subtest=4, w_branch=3, w_ckpt_fail=2,
                   w_ckpt_diag=2, p_diag=350, p_fault_beh=300, p_timeout=30, watchers=200, p_profile=100, p_monitor=150)


def setup():
  common.setup()


def run_one(tape):
  return common.run_with(tape, PROF, [oracles.c02])
