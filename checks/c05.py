"""C05 - phase result -> outcome mapping, repeat limit, run_if."""
from wx import common
from wx import gen
from wx import oracles

PROPERTY = 'C05'
LEVEL = 'exploration'
TECHNIQUE = ('deterministic simulation of the real phase executor on scripted per-invocation behaviours and all '
             'PhaseOptions combinations (virtual-time timeouts); per-phase records checked against the reference '
             'model M_phase')
LEVEL_TEXT = ('seeded exploration: phases with scripted invocation sequences (return values, exceptions, junk, '
              'measurement values, diagnoser results/raises, durations around the timeout) and every combination of '
              'repeat_limit / force_repeat / repeat_on_* / run_if / stop_on_measurement_fail / timeout_s, placed first, '
              'inside subtests and in teardown, are run by the real executor; per phase the invocation count, each '
              'record\'s outcome and result, the repeat-limit bound and the diagnoser runs must equal the reference '
              'model M_phase. Sampling, not exhaustive.')
LEVEL_NOTE = 'trusted: simkit, wx/model.py (M_phase as in DESIGN.md Appendix A)'
DESIGN_REF = 'DESIGN.md section 4, C05'
RULE = ('one run = a small program (1-6 nodes) dense in options and misbehaving invocations + schedule; non-trivial = '
        'some phase has a non-default option, a fault, a measurement or a diagnoser; distinct = distinct event-log digests')
ASSUMPTIONS = common.W_EXEC_ASSUMPTIONS
COMPONENTS = common.W_EXEC_COMPONENTS
QUICK = {'budget_s': 40}
THOROUGH = {'budget_s': 480}
EXPECTED_PROBES = ['m_repeat', 'm_repeat_limit_hit', 'm_run_if_false', 'm_run_if_raise', 'm_diag_raise',
                   'm_stop_on_measurement_fail', 'm_timeout']

PROF = gen.profile(max_nodes=6, max_depth=2, w_phase=12, w_group=2, w_subtest=3, w_branch=0, w_ckpt_fail=0,
                   w_ckpt_diag=0, w_seq=0, p_opts=650, p_fault_beh=450, p_meas=500, p_diag=450, p_timeout=120,
                   p_teardown_repeat=1000, p_settings=150, p_profile=100, p_monitor=200)


def setup():
  common.setup()


def run_one(tape):
  return common.run_with(tape, PROF, [oracles.c05])
