"""C16 - fastboot: command/response state machine and exact image transfer."""
import hashlib
import io

from simkit import env

PROPERTY = 'C16'
LEVEL = 'exploration'
TECHNIQUE = ('seeded peer simulation (single-threaded): the real FastbootCommands / FastbootProtocol run against a scripted '
             'bootloader that answers from {INFO, OKAY, DATA(size), FAIL, garbage, silence} and records every packet; '
             'specification automaton + exact byte audit at the peer')
LEVEL_TEXT = ('seeded histories against a reference automaton: commands (getvar / erase / flash / oem / reboot / continue / '
              'download / flash_from_file-style download+flash) with bootloader reply sequences over {INFO, OKAY, DATA(size), '
              'FAIL, garbage header, silence} up to length 8, image sizes around multiples of a tape-chosen chunk size '
              '(incl. 0 and 1), raising progress callbacks. Oracle: one "command[:arg]" packet per command; INFO texts '
              'forwarded in order; OKAY payload returned; FAIL -> remote-failure error carrying the text; out-of-place '
              'DATA/OKAY -> state-mismatch error; other header -> invalid-response error; download announces '
              '"download:%08x", sends no image byte unless DATA carries exactly that size (else transfer error), then '
              'exactly the image, in order, in chunks <= chunk size, with cumulative progress; a raising progress callback '
              'does not disturb the transfer. No threads and no clock are involved: the scheduler contributes nothing '
              'here, the evidence is "seeded peer histories against a model", not interleavings.')
LEVEL_NOTE = 'trusted: the scripted bootloader and the automaton in this file; FASTBOOT_DOWNLOAD_CHUNK_SIZE_KB treated as a knob'
DESIGN_REF = 'DESIGN.md section 4, C16'
RULE = ('one run = one command + one bootloader reply script + image size + chunk size; non-trivial = the script contains '
        'a non-OKAY reply or the command is a download; distinct = distinct (command, script, sizes) digests')
ASSUMPTIONS = ['payloads are str (the module is Python-2-era)', 'DATA replies carry a well-formed 8-hex-digit size']
COMPONENTS = {
    'real': ['openhtf.plugs.usb.fastboot_protocol.FastbootCommands / FastbootProtocol'],
    'simulated': ['bootloader peer + USB handle (scripted replies, records writes)'],
    'stub': ['libusb1 / usb1 / M2Crypto import-only stubs'],
}
WARMUP = 3
QUICK = {'budget_s': 30}
THOROUGH = {'budget_s': 300}
EXPECTED_PROBES = ['info_forwarded', 'fail', 'state_mismatch', 'invalid_response', 'silence', 'download_ok',
                   'download_size_mismatch', 'download_zero', 'progress_raises', 'multi_chunk']

_m = {}


def setup():
  env.import_openhtf()
  from openhtf.plugs.usb import fastboot_protocol, usb_exceptions
  import libusb1
  _m.update(fp=fastboot_protocol, exc=usb_exceptions, libusb1=libusb1)


class Bootloader(object):
  """The USB handle FastbootProtocol talks to."""

  def __init__(self, replies):
    self.replies = list(replies)
    self.writes = []
    self.reads = 0

  def write(self, data, timeout_ms=None):
    self.writes.append(data)
    return len(data)

  def read(self, length, timeout_ms=None):
    self.reads += 1
    if not self.replies:
      raise _m['exc'].UsbReadFailedError(_m['libusb1'].USBError(_m['libusb1'].LIBUSB_ERROR_TIMEOUT), 'timeout')
    return self.replies.pop(0)

  def close(self):
    pass


def _accept(replies, expected):
  """Automaton for one response phase.  Returns (kind, value, infos, consumed)."""
  infos = []
  n = 0
  for r in replies:
    n += 1
    h, rest = r[:4], r[4:]
    if h == 'INFO':
      infos.append(rest)
    elif h in ('OKAY', 'DATA'):
      if h != expected:
        return 'FastbootStateMismatchError', None, infos, n
      return 'ok', rest, infos, n
    elif h == 'FAIL':
      return 'FastbootRemoteFailureError', rest, infos, n
    else:
      return 'FastbootInvalidResponseError', None, infos, n
  return 'UsbReadFailedError', None, infos, n


def run_one(tape):
  fp = _m['fp']
  probes = {}
  faults = {}
  viols = []
  chunk_kb = tape.pick([1, 2, 4], 'chunk_kb')
  chunk = chunk_kb * 1024
  cmd = tape.weighted([(4, 'download'), (2, 'getvar'), (1, 'erase'), (1, 'flash'), (1, 'oem'), (1, 'reboot'),
                       (1, 'continue')], 'cmd')
  arg = tape.pick(['boot', 'version', 'a:b', 'x y', ''], 'arg')

  def gen_replies(expected, size=None):
    out = []
    for _ in range(tape.draw(4, 'ninfo')):
      out.append('INFO' + tape.pick(['hello', 'working...', '', 'x' * 50, 'erasing 50% done', '%s %d'], 'info'))
    last = tape.weighted([(6, 'expected'), (2, 'FAIL'), (1, 'other_final'), (1, 'garbage'), (1, 'silence'),
                          (1 if size is not None else 0, 'wrong_size')], 'last')
    if last == 'expected':
      out.append(expected + ('%08x' % size if expected == 'DATA' else tape.pick(['', 'done', '0.5', '100%'], 'okp')))
    elif last == 'wrong_size':
      ws = size + tape.pick([1, -1, 1024, 4096], 'dsz')
      out.append('DATA%08x' % (ws if ws >= 0 else size + 1))
    elif last == 'FAIL':
      out.append('FAIL' + tape.pick(['not allowed', '', 'locked', 'battery 5% low', 'bad %s'], 'failtxt'))
    elif last == 'other_final':
      out.append(('OKAY' if expected == 'DATA' else 'DATA00000010'))
    elif last == 'garbage':
      out.append(tape.pick(['XXXXjunk', 'okay', '', 'INF', 'WAIT50% done'], 'garbage'))
    return out

  infos_seen = []
  progress_seen = []
  praise = tape.chance(300, 'progress_raises')

  def info_cb(msg):
    infos_seen.append((msg.header, msg.message))

  def progress_cb(cur, total):
    progress_seen.append((cur, total))
    if praise:
      raise RuntimeError('progress callback failed')

  saved_chunk = fp.FASTBOOT_DOWNLOAD_CHUNK_SIZE_KB
  fp.FASTBOOT_DOWNLOAD_CHUNK_SIZE_KB = chunk_kb
  result = None
  try:
    if cmd == 'download':
      k = tape.pick([0, 1, 2, 3], 'mult')
      delta = tape.pick([0, 1, -1, 17], 'delta')
      size = max(0, k * chunk + delta)
      if tape.chance(100, 'tiny'):
        size = tape.pick([0, 1], 'tinysz')
      image = ''.join(chr(48 + (i * 7) % 75) for i in range(size))
      r1 = gen_replies('DATA', size)
      e1 = _accept(r1, 'DATA')
      r2 = []
      e2 = None
      accepted = None
      if e1[0] == 'ok':
        accepted = int(e1[1][:8], 16)
        if accepted == size:
          r2 = gen_replies('OKAY')
          e2 = _accept(r2, 'OKAY')
      boot = Bootloader(r1 + r2)
      cmds = fp.FastbootCommands(boot)
      give_len = tape.chance(500, 'give_len') and size > 0
      try:
        result = ('ok', cmds.download(io.StringIO(image), source_len=size if give_len else 0, info_cb=info_cb,
                                      progress_callback=progress_cb if tape.chance(700, 'use_progress') else None))
      except BaseException as e:  # pylint: disable=broad-except
        result = (type(e).__name__, str(e)[:80])
      # ---- oracle
      announce = 'download:%08x' % size
      if not boot.writes or boot.writes[0] != announce:
        viols.append({'clause': 'download_announcement', 'details': {'sent': repr(boot.writes[:1])[:60], 'want': announce}})
      body = boot.writes[1:]
      sent = ''.join(body)
      if e1[0] != 'ok' or accepted != size:
        if e1[0] == 'ok':
          probes['download_size_mismatch'] = 1
          faults['download_size_mismatch'] = 1
          want = 'FastbootTransferError'
        else:
          want = e1[0]
        if sent:
          viols.append({'clause': 'image_bytes_sent_without_matching_DATA', 'details': {
              'bytes': len(sent), 'size': size, 'accepted': accepted, 'phase1': e1[0]}})
        if result[0] != want:
          viols.append({'clause': 'download_wrong_error', 'details': {'got': result[0], 'want': want, 'msg': result[1]}})
      else:
        if sent != image:
          viols.append({'clause': 'image_not_transmitted_exactly', 'details': {
              'sent_len': len(sent), 'size': size, 'prefix_ok': image.startswith(sent), 'chunks': [len(c) for c in body][:8]}})
        if any(len(c) > chunk for c in body):
          viols.append({'clause': 'chunk_larger_than_configured', 'details': {'chunks': [len(c) for c in body][:8],
                                                                             'chunk': chunk}})
        if len(body) > 1:
          probes['multi_chunk'] = 1
        if size == 0:
          probes['download_zero'] = 1
        want = 'ok' if e2[0] == 'ok' else e2[0]
        if result[0] != want:
          viols.append({'clause': 'download_wrong_result', 'details': {'got': result[0], 'want': want, 'msg': str(result[1])[:60]}})
        elif want == 'ok':
          probes['download_ok'] = 1
          if result[1] != e2[1]:
            viols.append({'clause': 'okay_payload_not_returned', 'details': {'got': result[1], 'want': e2[1]}})
        if progress_seen:
          if praise:
            probes['progress_raises'] = 1
            faults['progress_raises'] = 1
          cum = 0
          exp_prog = []
          for c in body:
            cum += len(c)
            exp_prog.append((cum, size))
          if progress_seen != exp_prog:
            viols.append({'clause': 'progress_not_cumulative', 'details': {'seen': progress_seen[:5], 'want': exp_prog[:5]}})
      exp_infos = [x for x in e1[2]] + ([x for x in e2[2]] if e2 else [])
      got_infos = [m for (h, m) in infos_seen if h == 'INFO']
      if got_infos != exp_infos:
        viols.append({'clause': 'info_not_forwarded_in_order', 'details': {'got': got_infos[:4], 'want': exp_infos[:4]}})
      if exp_infos:
        probes['info_forwarded'] = 1
      script = r1 + r2
    else:
      replies = gen_replies('OKAY')
      e = _accept(replies, 'OKAY')
      boot = Bootloader(replies)
      cmds = fp.FastbootCommands(boot)
      try:
        if cmd == 'getvar':
          result = ('ok', cmds.get_var(arg, info_cb=info_cb))
          want_pkt = 'getvar:%s' % arg
        elif cmd == 'erase':
          cmds.erase(arg)
          result = ('ok', None)
          want_pkt = 'erase:%s' % arg
        elif cmd == 'flash':
          result = ('ok', cmds.flash(arg, info_cb=info_cb))
          want_pkt = 'flash:%s' % arg
        elif cmd == 'oem':
          result = ('ok', cmds.oem(arg, info_cb=info_cb))
          want_pkt = 'oem %s' % arg
        elif cmd == 'reboot':
          tm = tape.pick([None, 'bootloader'], 'mode')
          result = ('ok', cmds.reboot(tm))
          want_pkt = 'reboot' if tm is None else 'reboot:%s' % tm
        else:
          result = ('ok', cmds.continue_())
          want_pkt = 'continue'
      except BaseException as ex:  # pylint: disable=broad-except
        result = (type(ex).__name__, str(ex)[:80])
        want_pkt = {'getvar': 'getvar:%s' % arg, 'erase': 'erase:%s' % arg, 'flash': 'flash:%s' % arg,
                    'oem': 'oem %s' % arg, 'continue': 'continue'}.get(cmd)
      if want_pkt is not None and boot.writes != [want_pkt]:
        viols.append({'clause': 'command_not_one_packet', 'details': {'writes': [w[:30] for w in boot.writes][:3],
                                                                      'want': want_pkt}})
      want = 'ok' if e[0] == 'ok' else e[0]
      if result[0] != want:
        viols.append({'clause': 'command_wrong_result', 'details': {'got': result[0], 'want': want, 'msg': str(result[1])[:60],
                                                                   'script': [r[:12] for r in replies]}})
      elif want == 'ok' and cmd not in ('erase',) and result[1] != e[1]:
        viols.append({'clause': 'okay_payload_not_returned', 'details': {'got': result[1], 'want': e[1]}})
      elif want == 'FastbootRemoteFailureError' and e[1] not in result[1]:
        viols.append({'clause': 'fail_text_not_carried', 'details': {'msg': result[1], 'text': e[1]}})
      if cmd in ('getvar', 'flash', 'oem'):
        got_infos = [m for (h, m) in infos_seen if h == 'INFO']
        if got_infos != e[2]:
          viols.append({'clause': 'info_not_forwarded_in_order', 'details': {'got': got_infos[:4], 'want': e[2][:4]}})
        if e[2]:
          probes['info_forwarded'] = 1
      script = replies
      e1 = e
    for ee in (e1,):
      if ee[0] == 'FastbootRemoteFailureError':
        probes['fail'] = 1
        faults['fail'] = 1
      elif ee[0] == 'FastbootStateMismatchError':
        probes['state_mismatch'] = 1
        faults['state_mismatch'] = 1
      elif ee[0] == 'FastbootInvalidResponseError':
        probes['invalid_response'] = 1
        faults['garbage'] = 1
      elif ee[0] == 'UsbReadFailedError':
        probes['silence'] = 1
        faults['silence'] = 1
  finally:
    fp.FASTBOOT_DOWNLOAD_CHUNK_SIZE_KB = saved_chunk
  key = repr((cmd, arg, chunk_kb, [r[:12] for r in script], result[0]))
  dg = hashlib.sha1(key.encode()).hexdigest()
  return {
      'violations': viols, 'digest': dg, 'sched': None,
      'nontrivial': cmd == 'download' or bool(faults) or bool(probes.get('info_forwarded')),
      'faults': faults, 'probes': probes, 'steps': 0, 'switches': 0, 'preempts': 0, 'sim_s': 0.0,
      'sample': {'command': cmd, 'arg': arg, 'chunk_kb': chunk_kb, 'script': [r[:14] for r in script], 'result': result[0]},
      'abnormal': None, 'poison': False,
  }
