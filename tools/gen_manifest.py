#!/usr/bin/env python3
"""Generates /verif/MANIFEST.json from the table below (keeps it valid at all times)."""
import json
import os

VERIF = os.path.dirname(os.path.dirname(os.path.abspath(__file__)))

CHECKS = {
    # id: (category, text, note, technique, design_ref)
}

NOT_APPLICABLE = {
    'C07': 'the built-in validators are pure functions of (limits, value): no thread, clock, I/O, peer, '
           'retry or state history exists for a scheduler or fault injector to act on; deciding it needs '
           'boundary-complete input enumeration against an arithmetic oracle, which is a different technique',
}

NOT_YET = {}


def load_checks():
  import importlib.util
  out = {}
  cdir = os.path.join(VERIF, 'checks')
  for fn in sorted(os.listdir(cdir)):
    if not (fn.startswith('c') and fn.endswith('.py') and fn[1:3].isdigit()):
      continue
    src = open(os.path.join(cdir, fn)).read()
    ns = {}
    # pull the MANIFEST_* constants without importing openhtf
    import ast
    tree = ast.parse(src)
    for node in tree.body:
      if isinstance(node, ast.Assign) and len(node.targets) == 1 and isinstance(node.targets[0], ast.Name):
        name = node.targets[0].id
        if name in ('PROPERTY', 'LEVEL', 'TECHNIQUE', 'LEVEL_TEXT', 'LEVEL_NOTE', 'DESIGN_REF'):
          ns[name] = ast.literal_eval(node.value)
    out[ns['PROPERTY']] = ns
  return out


def main():
  checks = load_checks()
  props = [json.loads(l)['id'] for l in open(os.path.join(VERIF, 'properties.jsonl'))]
  man = {
      'version': 1,
      'setup_cmd': '/venv/bin/python /verif/tools/setup.py',
      'hooks': {
          'guard': 'OPENHTF_VERIF',
          'enable': 'no source hooks: every seam is installed from outside by /verif/simkit (env OPENHTF_VERIF=1 is '
                    'set by the checks but nothing in /repo reads it)',
          'baseline_off_cmd': 'cd /repo && /venv/bin/python -m pytest -ra -q -p no:cacheprovider --timeout=900 '
                              '--continue-on-collection-errors',
          'source_commits': [],
          'add_only': True,
      },
      'engines': [{
          'name': 'simkit',
          'path': '/verif/simkit',
          'serves_properties': sorted(checks),
          'kind_free_text': 'deterministic simulation: baton-passing scheduler for real threads, virtual clock, '
                            'choice tape (seeded search / replay / shrinking), fault injection, simulated FS and USB peers',
      }],
      'checks': [],
      'not_applicable': [],
      'notes': 'All checks: /verif/check <id> --tier quick|thorough; honour VERIF_SEED, VERIF_TIER, VERIF_JOBS, '
               'VERIF_BUDGET_S. Exit 0 held / 1 VIOLATION / 2 HARNESS-ERROR. Known findings: /verif/known_findings.json.',
  }
  for pid in props:
    if pid in checks:
      c = checks[pid]
      man['checks'].append({
          'property_id': pid,
          'quick_cmd': '/verif/check %s --tier quick' % pid,
          'thorough_cmd': '/verif/check %s --tier thorough' % pid,
          'evidence_file': '/verif/evidence/%s.json' % pid,
          'replay_cmd_template': '/verif/check %s --replay {path}' % pid,
          'engine': 'simkit',
          'level_claimed': {'category': c['LEVEL'], 'text': c['LEVEL_TEXT'], 'design_ref': c.get('DESIGN_REF', 'DESIGN.md section 4')},
          'level_note': c['LEVEL_NOTE'],
          'technique': c['TECHNIQUE'],
      })
    elif pid in NOT_APPLICABLE:
      man['not_applicable'].append({'property_id': pid, 'reason': NOT_APPLICABLE[pid]})
    else:
      man['not_applicable'].append({'property_id': pid, 'reason': 'not claimed yet: the check for this property is still '
                                    'being built (planned per DESIGN.md); no verdict is offered'})
  with open(os.path.join(VERIF, 'MANIFEST.json'), 'w') as f:
    json.dump(man, f, indent=1)
  print('checks:', [c['property_id'] for c in man['checks']])


if __name__ == '__main__':
  main()
