#!/bin/bash
# usage: verify_round2.sh C16 [C20 ...]  -- confirm round-2 sub-agent seeds (a->c, b->d) from /tmp/seedwork2
for ID in "$@"; do
  for X in a b; do
    if [ -f /tmp/seedwork2/$ID/out/$X/patch.diff ]; then
      D=c; [ $X = b ] && D=d
      SEEDROOT=/tmp/seedwork2 DESTX=$D bash /verif/tools/verify_seed.sh $ID $X 2>&1 | grep -E "RESULT|KEPT|REJECTED|DOES NOT APPLY"
    else
      echo "MISSING $ID $X"
    fi
  done
done
