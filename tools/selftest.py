#!/venv/bin/python
"""Determinism self-test: every run index must give the same event-log digest whatever ran
before it in the process, under another PYTHONHASHSEED, and when run twice.

usage: selftest.py [--quick] [--props C04,C18] [--n 60]
"""
import json
import os
import subprocess
import sys

VERIF = os.path.dirname(os.path.dirname(os.path.abspath(__file__)))

CHILD = r'''
import sys, json
sys.path.insert(0, %(verif)r)
from simkit import env; env.prepare()
import importlib
from simkit import tape as T, runner
prop = %(prop)r
mod = importlib.import_module('checks.' + prop.lower()); mod.setup(); runner.warm_up(mod)
out = {}
for idx in %(order)r:
  tp = T.Tape(T.derive_seed(%(seed)d, prop, idx))
  res = runner.run_guarded(mod, tp, 120)
  out[idx] = [res.get('digest'), res.get('sched'), sorted(v['clause'] for v in res.get('violations', [])), res.get('abnormal')]
  if res.get('poison'):
    break   # as in the real search: a poisoned worker is replaced by a fresh process
print('RESULT ' + json.dumps(out))
'''


def run_child(prop, order, seed, hashseed):
  env = dict(os.environ, PYTHONHASHSEED=str(hashseed), PYTHONDONTWRITEBYTECODE='1')
  code = CHILD % dict(verif=VERIF, prop=prop, order=list(order), seed=seed)
  p = subprocess.run(['/venv/bin/python', '-c', code], env=env, capture_output=True, timeout=1200)
  for line in p.stdout.decode().splitlines():
    if line.startswith('RESULT '):
      got = {int(k): v for k, v in json.loads(line[7:]).items()}
      rest = [i for i in order if i not in got]
      if rest and got:
        got.update(run_child(prop, rest, seed, hashseed))
      return got
  sys.stderr.write(p.stderr.decode()[-3000:])
  raise SystemExit('selftest child failed for %s' % prop)


def main():
  args = sys.argv[1:]
  quick = '--quick' in args
  props = None
  n = 12 if quick else 60
  for i, a in enumerate(args):
    if a == '--props':
      props = args[i + 1].split(',')
    if a == '--n':
      n = int(args[i + 1])
  if props is None:
    props = sorted(f[:-3].upper() for f in os.listdir(os.path.join(VERIF, 'checks'))
                   if f.startswith('c') and f[1:3].isdigit() and f.endswith('.py'))
    if quick:
      props = [p for p in props if p in ('C04', 'C18', 'C14', 'C17')] or props[:2]
  bad = 0
  for prop in props:
    idxs = list(range(n))
    a = run_child(prop, idxs, 0, 0)
    b = run_child(prop, list(reversed(idxs)), 0, 1)
    c = run_child(prop, idxs[::2] + idxs[1::2], 0, 0) if not quick else a
    diff = [i for i in idxs if not (a[i] == b[i] == c[i])]
    print('%s: %d run indices x 3 orders/hash seeds: %s' % (prop, n, 'deterministic' if not diff else 'DIVERGED at %s' % diff[:10]))
    if diff:
      bad += 1
      i = diff[0]
      print('   e.g. index', i, a[i], b[i], c[i])
  return 1 if bad else 0


if __name__ == '__main__':
  sys.exit(main())
