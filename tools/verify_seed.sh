#!/bin/bash
# usage: verify_seed.sh <Cxx> <a|b>   -- confirm a sub-agent's seeded change in a scratch worktree of /repo HEAD
set -u
ID=$1; X=$2
SRC=${SEEDROOT:-/tmp/seedwork}/$ID/out/$X
WT=$(mktemp -d /tmp/vseed.XXXXXX)
git -C /repo worktree add --detach $WT HEAD >/dev/null 2>&1 || { echo "worktree failed"; exit 3; }
cd $WT
echo "== clean demo"; timeout 300 /venv/bin/python $SRC/demo.py $WT > $WT/.clean.out 2>&1; RC_CLEAN=$?; tail -2 $WT/.clean.out
if ! git apply $SRC/patch.diff; then echo "PATCH DOES NOT APPLY on HEAD"; git -C /repo worktree remove --force $WT; exit 4; fi
echo "== patched demo"; timeout 300 /venv/bin/python $SRC/demo.py $WT > $WT/.pat.out 2>&1; RC_PAT=$?; tail -3 $WT/.pat.out
echo "== suite with patch"; SUITE=$(timeout 900 /venv/bin/python -m pytest -q -p no:cacheprovider --timeout=900 --continue-on-collection-errors 2>&1 | tail -1); echo "$SUITE"
cd /
git -C /repo worktree remove --force $WT
echo "RESULT $ID $X clean_rc=$RC_CLEAN patched_rc=$RC_PAT suite=[$SUITE]"
if [ $RC_CLEAN -eq 0 ] && [ $RC_PAT -eq 1 ] && echo "$SUITE" | grep -q "307 passed"; then
  DEST=/verif/seeded/${ID}_${DESTX:-$X}; mkdir -p $DEST
  cp $SRC/patch.diff $SRC/demo.py $DEST/
  cp $SRC/meta.json $DEST/agent_meta.json
  echo "KEPT $DEST"
else
  echo "REJECTED"
fi
