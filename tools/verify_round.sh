#!/bin/bash
# usage: verify_round.sh <seedroot> <x-for-a> <x-for-b> C16 [C20 ...]  -- confirm sub-agent seeds of one round
ROOT=$1; XA=$2; XB=$3; shift 3
for ID in "$@"; do
  for X in a b; do
    if [ -f $ROOT/$ID/out/$X/patch.diff ]; then
      D=$XA; [ $X = b ] && D=$XB
      SEEDROOT=$ROOT DESTX=$D bash /verif/tools/verify_seed.sh $ID $X 2>&1 | grep -E "RESULT|KEPT|REJECTED|DOES NOT APPLY"
    else
      echo "MISSING $ID $X"
    fi
  done
done
