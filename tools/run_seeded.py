#!/venv/bin/python
"""Runs every kept seeded change (/verif/seeded/<id>_<x>/patch.diff) against the check of its property in a
scratch copy of /repo (tools/try_patch.sh) and records the result in the directory's meta.json.

usage: run_seeded.py [--budget 120] [--only C11_a,C19_b]
"""
import json
import os
import re
import subprocess
import sys
import time

VERIF = os.path.dirname(os.path.dirname(os.path.abspath(__file__)))


def main():
  budget = '120'
  only = None
  args = sys.argv[1:]
  while args:
    a = args.pop(0)
    if a == '--budget':
      budget = args.pop(0)
    elif a == '--only':
      only = set(args.pop(0).split(','))
  repo_head = subprocess.check_output(['git', '-C', '/repo', 'rev-parse', '--short', 'HEAD']).decode().strip()
  verif_head = subprocess.check_output(['git', '-C', VERIF, 'rev-parse', '--short', 'HEAD']).decode().strip()
  rows = []
  for d in sorted(os.listdir(os.path.join(VERIF, 'seeded'))):
    path = os.path.join(VERIF, 'seeded', d)
    patch = os.path.join(path, 'patch.diff')
    if not os.path.isfile(patch) or (only and d not in only):
      continue
    prop = d.split('_')[0]
    t0 = time.time()
    p = subprocess.run([os.path.join(VERIF, 'tools', 'try_patch.sh'), patch, prop, '--budget', budget, '--jobs', '14'],
                       stdout=subprocess.PIPE, stderr=subprocess.STDOUT, timeout=3600)
    out = p.stdout.decode(errors='replace')
    dt = time.time() - t0
    clauses = re.findall(r'violation clause=(\S+)', out)
    rc = re.search(r'try_patch rc=(\d+)', out)
    rc = int(rc.group(1)) if rc else None
    applies = 'PATCH DOES NOT APPLY' not in out
    agent = {}
    try:
      agent = json.load(open(os.path.join(path, 'agent_meta.json')))
    except Exception:  # pylint: disable=broad-except
      pass
    meta = {
        'property': prop,
        'origin': 'fresh sub-agent given only the property text and a scratch worktree of /repo',
        'what_was_changed': agent.get('summary'),
        'needs_to_manifest': agent.get('needs'),
        'files': agent.get('files'),
        'confirmed_by_me': {
            'how': 'tools/verify_seed.sh: scratch worktree of /repo HEAD; demo.py exits 0 on the clean tree and 1 with the '
                   'patch; the pinned 307-test suite still passes with the patch',
            'ported': os.path.exists(os.path.join(path, 'patch_vs_pinned_commit.diff')),
            'demo_adapted': os.path.exists(os.path.join(path, 'demo_as_delivered.py')),
        },
        'check_run': {
            'cmd': 'tools/try_patch.sh seeded/%s/patch.diff %s --budget %s --jobs 14' % (d, prop, budget),
            'repo_head': repo_head, 'verif_head': verif_head, 'applies': applies, 'exit_code': rc,
            'detected': rc == 1 and bool(clauses), 'violation_clauses': sorted(set(clauses))[:4],
            'wall_s': round(dt, 1), 'date_utc': time.strftime('%Y-%m-%dT%H:%M:%SZ', time.gmtime()),
        },
    }
    json.dump(meta, open(os.path.join(path, 'meta.json'), 'w'), indent=1)
    rows.append((d, meta['check_run']['detected'], rc, sorted(set(clauses))[:2], round(dt)))
    print(d, 'DETECTED' if meta['check_run']['detected'] else 'MISSED rc=%s applies=%s' % (rc, applies), sorted(set(clauses))[:2], '%ds' % dt)
    sys.stdout.flush()
  print('detected %d of %d' % (sum(1 for r in rows if r[1]), len(rows)))


if __name__ == '__main__':
  main()
