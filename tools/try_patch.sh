#!/bin/bash
# usage: try_patch.sh <patch.diff> <property> [extra check args]
# Applies a patch to a scratch copy of /repo (outside /repo and /verif), runs the
# check against it with outputs in a scratch dir, and removes the copy.
set -u
PATCH=$(readlink -f "$1"); PROP=$2; shift 2
S=$(mktemp -d /tmp/mutrepo.XXXXXX)
mkdir -p $S/repo
(cd /repo && git archive HEAD openhtf | tar -x -C $S/repo)
# carry over uncommitted changes in /repo's working tree
(cd /repo && git diff HEAD -- openhtf) > $S/wt.diff
if [ -s $S/wt.diff ]; then (cd $S/repo && git apply $S/wt.diff) ; fi
(cd $S/repo && git apply "$PATCH") || { echo "PATCH DOES NOT APPLY"; rm -rf $S; exit 3; }
VERIF_REPO=$S/repo VERIF_OUT=$S/out timeout 1200 /verif/check $PROP "$@"
RC=$?
rm -rf $S
echo "try_patch rc=$RC"
exit $RC
