#!/bin/bash
# Soak: run every registered check's quick tier under many seeds; report anything that is not exit 0.
# usage: soak.sh [first_seed] [last_seed] [budget_s] [jobs]
cd "$(dirname "$0")/.."
A=${1:-1}; B=${2:-6}; BUD=${3:-40}; J=${4:-8}
mkdir -p /tmp/soak_out
for seed in $(seq $A $B); do
  for f in checks/c[0-9][0-9].py; do
    id=$(basename $f .py | tr a-z A-Z)
    VERIF_OUT=/tmp/soak_out VERIF_SEED=$seed timeout 900 ./check $id --budget $BUD --jobs $J > /tmp/soak_out/$id.$seed.log 2>&1
    rc=$?
    if [ $rc -ne 0 ]; then
      echo "ALARM $id seed=$seed rc=$rc"; grep -v "^KNOWN\|^replay_ver" /tmp/soak_out/$id.$seed.log | cut -c1-500 | tail -6
    else
      echo "ok $id seed=$seed $(grep -o 'runs=[0-9]*' /tmp/soak_out/$id.$seed.log)"
    fi
  done
done
