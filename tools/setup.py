#!/venv/bin/python
"""MANIFEST.setup_cmd: offline sanity of the framework (nothing to build)."""
import os
import subprocess
import sys

VERIF = os.path.dirname(os.path.dirname(os.path.abspath(__file__)))


def main():
  os.makedirs(os.path.join(VERIF, 'evidence'), exist_ok=True)
  os.makedirs(os.path.join(VERIF, 'replays'), exist_ok=True)
  env = dict(os.environ, PYTHONHASHSEED='0', PYTHONDONTWRITEBYTECODE='1')
  code = ("import sys; sys.path.insert(0, %r); from simkit import env; env.prepare(); "
          "env.import_openhtf(); import openhtf; print('openhtf imported from', openhtf.__file__)" % VERIF)
  r = subprocess.run(['/venv/bin/python', '-c', code], env=env)
  if r.returncode:
    return r.returncode
  st = os.path.join(VERIF, 'tools', 'selftest.py')
  if os.path.exists(st):
    return subprocess.run(['/venv/bin/python', st, '--quick'], env=env).returncode
  return 0


if __name__ == '__main__':
  sys.exit(main())
