"""W-exec program generator: a program spec (plain data) drawn from the tape.

The same spec is (a) built into a real openhtf.Test by wx.build and (b)
interpreted by the reference model wx.model.  Zero on the tape always gives the
simplest option (plain passing phase, no fault).
"""

DEFAULT_PROFILE = {
    'max_nodes': 12,
    'max_depth': 3,
    # node kind weights (first = zero choice)
    'w_phase': 10, 'w_seq': 1, 'w_group': 3, 'w_subtest': 3, 'w_branch': 2,
    'w_ckpt_fail': 1, 'w_ckpt_diag': 1,
    # per-mille feature probabilities
    'p_fault_beh': 250,      # a phase invocation misbehaves
    'p_opts': 200,           # a phase has non-default options
    'p_meas': 300,
    'p_dim_meas': 500,       # share of validator-less measurements that are dimensioned
    'max_meas': 2,           # measurements per phase: 1..max_meas
    'p_diag': 250,
    'p_internal_diag': 300,  # share of eligible (non-failure) phase diagnosers that issue internal diagnoses
    'p_plug': 0,
    'n_plug_classes': 3,     # 4 adds a second class with the same qualified name as the first
    'p_timeout': 0,          # phase with timeout and long / hanging body
    'p_ambiguous_dur': 0,    # durations inside [deadline, deadline+3) allowed
    'p_dur': 150,            # short sleeps in bodies
    'p_test_start': 150,
    'p_test_diag': 150,
    'p_settings': 300,
    'p_callbacks_raise': 0,
    'p_logs': 300,
    'p_attach': 100,
    'p_teardown_repeat': 0,  # allow REPEAT-ish behaviours on teardown nodes
    'abort': 0,              # per-mille probability of an operator abort
    'abort2': 0,             # ... of a second abort, given one
    'sigint': 0,             # share (per-mille) of aborts delivered as SIGINT on main
    'plug_faults': 0,
    'watchers': 0,
    'late': 0,
    'p_profile': 0,
    'p_monitor': 0,
    'p_share_function': 0,
    'p_dut_percent': 0,
    'p_monitor_hang': 0,
    'p_bare': 0,             # phases whose function takes no TestApi argument (plugs only / nothing)
}


def profile(**over):
  p = dict(DEFAULT_PROFILE)
  p.update(over)
  return p


class Gen(object):

  def __init__(self, tape, prof, tag=''):
    self.t = tape
    self.p = prof
    self.tag = tag
    self.n_nodes = 0
    self.n_phase = 0
    self.n_other = 0
    self.phases = []
    self.used_results = []

  def chance(self, key):
    return self.t.chance(self.p.get(key, 0), key)

  # -------------------------------------------------------------- behaviours
  def behaviour(self, in_subtest, in_teardown, allow_repeat=True, timeout=None):
    t = self.t
    beh = {'kind': 'ret', 'val': 'CONTINUE'}
    if self.chance('p_fault_beh'):
      opts = [(6 if in_subtest else 3, ('ret', 'FAIL_AND_CONTINUE')), (2, ('ret', 'SKIP')),
              (2, ('ret', 'STOP')), (3, ('raise', 'ValueError')), (1, ('raise', 'FailExc')),
              (1, ('junk', 'int')), (1, ('junk', 'false')), (1, ('junk', 'str')),
              (1, ('junk', 'zero')), (1, ('junk', 'empty')), (1, ('ret', 'NONE')),
              (3, ('ret', 'FAIL_SUBTEST')), (1, ('raise', 'SystemExit'))]
      if allow_repeat:
        opts.append((3, ('ret', 'REPEAT')))
      kind, val = t.weighted(opts, 'beh')
      if kind == 'raise':
        beh = {'kind': 'raise', 'exc': val}
      else:
        beh = {'kind': kind, 'val': val}
    if self.chance('p_dur'):
      beh['dur'] = t.pick([0.001, 0.01, 0.25, 1.0, 2.5], 'dur')
      beh['slices'] = t.pick([1, 1, 3], 'slices')
    if timeout is not None:
      # place the duration around the deadline
      choices = [(3, ('hang', 'k')), (2, ('dur', timeout + 3.5)), (2, ('dur', timeout * 0.5)),
                 (2, ('dur', max(0.0, timeout - 0.001))), (2, ('hang', 'u'))]
      if self.chance('p_ambiguous_dur'):
        choices += [(2, ('dur', timeout)), (2, ('dur', timeout + 0.001)), (2, ('dur', timeout + 2.9))]
      what, v = t.weighted(choices, 'tdur')
      if what == 'hang':
        beh['hang'] = v
        if v == 'u':
          beh['dur'] = timeout + t.pick([4.0, 8.0], 'udur')
          if self.chance('late'):
            beh['late'] = True
      else:
        beh['dur'] = v
        beh['slices'] = t.pick([1, 4], 'slices')
    if self.chance('p_logs'):
      beh['logs'] = 1 + t.draw(2, 'nlogs')
    if self.chance('p_attach'):
      beh['attach'] = 1
    if self.chance('p_xlogs'):
      beh['xlogs'] = [t.draw(15, 'xshape') for _ in range(1 + t.draw(3, 'nxlogs'))]
    return beh

  def phase(self, in_subtest=False, in_teardown=False, role='main'):
    t = self.t
    k = self.n_phase
    self.n_phase += 1
    self.n_nodes += 1
    name = '%sp%d' % (self.tag.replace(':', '_'), k)
    opts = {'timeout_s': None, 'run_if': None, 'repeat_limit': None, 'force_repeat': False,
            'repeat_on_measurement_fail': False, 'repeat_on_timeout': False,
            'stop_on_measurement_fail': False}
    allow_repeat = not in_teardown or self.chance('p_teardown_repeat')
    timeout = None
    if self.chance('p_timeout'):
      timeout = t.pick([1.0, 3.0, 4.0, 6.5], 'timeout')
      opts['timeout_s'] = timeout
      if allow_repeat and t.chance(150, 'rot'):
        opts['repeat_on_timeout'] = True
    nopts = 0
    if self.chance('p_opts'):
      nopts = 1 + (1 if t.chance(250, 'opt2') else 0)
    for _ in range(nopts):
      which = t.weighted([(3, 'run_if'), (3, 'repeat_limit'), (2, 'force_repeat'),
                          (2, 'repeat_on_measurement_fail'), (2, 'stop_on_measurement_fail'),
                          (1, 'timeout_only')], 'opt')
      if which == 'run_if':
        n = 1 + t.draw(2, 'nrunif')
        opts['run_if'] = [t.weighted([(3, False), (3, True), (1, 'raise')], 'runif') for _ in range(n)]
      elif which == 'repeat_limit':
        opts['repeat_limit'] = t.pick([1, 2, 4], 'rl')
      elif which == 'force_repeat':
        if allow_repeat:
          opts['force_repeat'] = True
          if t.chance(400, 'rl2'):
            opts['repeat_limit'] = t.pick([1, 2, 4], 'rl')
      elif which == 'repeat_on_measurement_fail':
        if allow_repeat:
          opts['repeat_on_measurement_fail'] = True
      elif which == 'stop_on_measurement_fail':
        opts['stop_on_measurement_fail'] = True
      elif which == 'timeout_only' and timeout is None:
        opts['timeout_s'] = t.pick([5.0, 30.0], 'to2')
    meas = []
    force_meas = opts['repeat_on_measurement_fail'] or opts['stop_on_measurement_fail']
    if force_meas or self.chance('p_meas'):
      for j in range(1 + t.draw(self.p.get('max_meas', 2), 'nmeas')):
        meas.append({'name': 'm%d_%d' % (k, j),
                     'validator': t.weighted([(3, ['in_range', 0, 10]), (1, None), (1, ['equals', 5])], 'val')})
        # a dimensioned measurement (no validator: validators of dimensioned measurements get the
        # whole table); set through a coordinate or left unset like the others
        if meas[-1]['validator'] is None and self.chance('p_dim_meas'):
          meas[-1]['dim'] = True
    diags = []
    if self.chance('p_diag'):
      for j in range(1 + t.draw(2, 'ndiag')):
        nouts = 1 + t.draw(2, 'nouts')
        outs = []
        for _ in range(nouts):
          o = t.weighted([(4, 'one'), (2, 'none'), (1, 'two'), (1, 'raise')], 'dout')
          if o == 'raise':
            outs.append('raise')
          elif o == 'none':
            outs.append([])
          else:
            res = []
            for _ in range(1 if o == 'one' else 2):
              r = t.draw(6, 'r')
              res.append([r, 1 if t.chance(300, 'isfail') else 0])
              self.used_results.append(r)
            outs.append(res)
        d = {'name': 'd%d_%d' % (k, j), 'outs': outs, 'always_fail': t.chance(100, 'af')}
        # internal diagnoses (kept out of the record, but they do reach the diagnoses store that
        # branches, diagnosis checkpoints and conditional validators look at); never failures
        if (not d['always_fail'] and all(o == 'raise' or all(not f for (_, f) in o) for o in outs)
            and self.chance('p_internal_diag')):
          d['internal'] = True
        diags.append(d)
    plugs = {}
    if self.chance('p_plug'):
      for j in range(1 + t.draw(2, 'nplug')):
        pi = t.draw(self.p.get('n_plug_classes', 3), 'plug')
        plugs['arg%d' % pi if t.chance(500, 'pname') else 'plug_%d_%d' % (k, pi)] = pi
      # one argument name per plug class at most once per phase
    # behaviours per invocation
    nbeh = 1 + (t.draw(3, 'nbeh') if (allow_repeat) else 0)
    beh = []
    for _ in range(nbeh):
      b = self.behaviour(in_subtest, in_teardown, allow_repeat, timeout)
      ms = []
      for m in meas:
        v = t.weighted([(4, 5), (2, 'unset'), (2, 50), (1, 0), (1, 10), (1, -1)], 'mv')
        if v != 'unset':
          ms.append([m['name'], v])
      if ms:
        b['meas'] = ms
      beh.append(b)
    spec = {'t': 'phase', 'name': name, 'opts': opts, 'meas': meas, 'diags': diags,
            'plugs': plugs, 'beh': beh}
    # openhtf.core.monitors: a background thread samples a value into a dimensioned measurement
    # while the body runs (phases without plugs and without a timeout only: the wrapper calls the
    # inner phase without its plugs, and joining the monitor thread may take one poll interval)
    if not plugs and timeout is None and role == 'main' and self.chance('p_monitor'):
      spec['monitor'] = {'interval_ms': t.pick([500, 200, 1000], 'mon_interval')}
      if t.chance(300, 'mon_block'):
        # the monitor function blocks in a call that does not see the kill (a slow instrument read)
        spec['monitor']['block_s'] = 3.0
    elif not plugs and timeout is not None and role == 'main' and self.chance('p_monitor_hang'):
      # a monitored phase whose body never returns in time and ignores the kill: its monitor
      # thread is abandoned with it and goes on sampling while later phases / retries run
      spec['monitor'] = {'interval_ms': t.pick([500, 200, 1000], 'mon_interval')}
      for b in beh:
        b.clear()
        b.update({'kind': 'ret', 'val': 'CONTINUE', 'hang': 'u', 'dur': timeout + t.pick([4.0, 8.0], 'udur')})
      if allow_repeat and t.chance(600, 'mon_rot'):
        opts['repeat_on_timeout'] = True
    # a phase function that takes no TestApi argument (zero-argument or plugs-only phase): openhtf then
    # never touches running_phase_state on the phase thread before the body runs, so a body that is
    # started late (after a stop) is not masked by the 'no running phase' error of the TestApi
    if not meas and not spec.get('monitor') and role != 'test_start' and self.chance('p_bare'):
      spec['bare'] = True
      for b in beh:
        for key in ('logs', 'xlogs', 'attach', 'dut', 'late', 'late_meas'):
          b.pop(key, None)
    self.phases.append(spec)
    return spec

  # -------------------------------------------------------------------- nodes
  def nodes(self, depth, in_subtest, in_teardown, lo=1, hi=3):
    n = lo + self.t.draw(hi - lo + 1, 'nnodes')
    out = []
    for _ in range(n):
      if self.n_nodes >= self.p['max_nodes']:
        break
      out.append(self.node(depth, in_subtest, in_teardown))
    if not out and lo > 0:
      out.append(self.phase(in_subtest, in_teardown))
    return out

  def node(self, depth, in_subtest, in_teardown):
    t = self.t
    p = self.p
    if depth >= p['max_depth']:
      return self.phase(in_subtest, in_teardown)
    boost = 3 if in_subtest else 1
    kinds = [(p['w_phase'], 'phase'), (p['w_group'], 'group'), (p['w_subtest'] * (2 if in_subtest else 1), 'subtest'),
             (p['w_branch'], 'branch'), (p['w_seq'], 'seq'), (p['w_ckpt_fail'] * boost, 'ckpt_fail'),
             (p['w_ckpt_diag'] * boost, 'ckpt_diag')]
    kinds = [(w, k) for (w, k) in kinds if w > 0]
    kind = t.weighted(kinds, 'kind')
    if kind == 'phase':
      return self.phase(in_subtest, in_teardown)
    self.n_nodes += 1
    self.n_other += 1
    idx = self.n_other
    tg = self.tag.replace(':', '_')
    if kind == 'seq':
      return {'t': 'seq', 'name': '%sseq%d' % (tg, idx) if t.chance(500, 'named') else None,
              'nodes': self.nodes(depth + 1, in_subtest, in_teardown)}
    if kind == 'subtest':
      return {'t': 'subtest', 'name': '%ssub%d' % (tg, idx),
              'nodes': self.nodes(depth + 1, True, in_teardown)}
    if kind == 'branch':
      nres = 1 + t.draw(3, 'nres')
      results = []
      for _ in range(nres):
        # bias towards results some diagnoser can produce
        if self.used_results and t.chance(700, 'useres'):
          results.append(t.pick(self.used_results, 'res'))
        else:
          results.append(t.draw(6, 'res'))
      return {'t': 'branch', 'name': '%sbr%d' % (tg, idx) if t.chance(700, 'named') else None,
              'cond': t.pick(['ANY', 'ALL', 'NOT_ANY', 'NOT_ALL'], 'cond'),
              'results': results, 'nodes': self.nodes(depth + 1, in_subtest, in_teardown)}
    if kind == 'group':
      g = {'t': 'group', 'name': '%sgrp%d' % (tg, idx) if t.chance(700, 'named') else None}
      shape = t.weighted([(4, 'smt'), (3, 'mt'), (1, 'sm'), (1, 'st'), (1, 't')], 'gshape')
      g['setup'] = self.nodes(depth + 1, in_subtest, in_teardown, 1, 2) if 's' in shape else None
      g['main'] = self.nodes(depth + 1, in_subtest, in_teardown, 1, 3) if 'm' in shape else None
      g['teardown'] = self.nodes(depth + 1, in_subtest, True, 1, 2) if 't' in shape else None
      return g
    if kind == 'ckpt_fail':
      return {'t': 'ckpt_fail', 'name': '%sck%d' % (tg, idx),
              'action': t.weighted([(2, 'STOP'), (2, 'FAIL_SUBTEST')], 'action'),
              'prev': (t.weighted([(1, 'LAST'), (1, 'ALL'), (3, 'SUBTEST')], 'prev') if in_subtest
                       else t.pick(['LAST', 'ALL', 'SUBTEST'], 'prev'))}
    if kind == 'ckpt_diag':
      nres = 1 + t.draw(2, 'nres')
      results = []
      for _ in range(nres):
        if self.used_results and t.chance(700, 'useres'):
          results.append(t.pick(self.used_results, 'res'))
        else:
          results.append(t.draw(6, 'res'))
      return {'t': 'ckpt_diag', 'name': '%sck%d' % (tg, idx),
              'action': t.weighted([(2, 'STOP'), (2, 'FAIL_SUBTEST')], 'action'),
              'cond': t.pick(['ANY', 'ALL', 'NOT_ANY', 'NOT_ALL'], 'cond'), 'results': results}
    raise AssertionError(kind)

  # ------------------------------------------------------------------ program
  def program(self):
    t = self.t
    p = self.p
    spec = {'tag': self.tag}
    settings = {'stop_on_first_failure': False, 'conf_stop_on_first_failure': False,
                'allow_unset': False, 'failure_exceptions': False, 'cancel_timeout_s': 2,
                'plug_teardown_timeout_s': 0}
    if self.chance('p_settings'):
      which = t.weighted([(3, 'sofo'), (2, 'sofc'), (3, 'unset'), (3, 'fexc'), (1, 'cancel')], 'setting')
      if which == 'sofo':
        settings['stop_on_first_failure'] = True
      elif which == 'sofc':
        settings['conf_stop_on_first_failure'] = True
      elif which == 'unset':
        settings['allow_unset'] = True
      elif which == 'fexc':
        settings['failure_exceptions'] = True
      elif which == 'cancel':
        settings['cancel_timeout_s'] = t.pick([0.5, 1], 'cancel')
    spec['settings'] = settings
    spec['test_start'] = None
    if self.chance('p_test_start'):
      kind = t.weighted([(3, 'phase'), (1, 'lambda')], 'tskind')
      if kind == 'lambda':
        spec['test_start'] = 'lambda'
      else:
        ts = self.phase(False, False, role='test_start')
        ts['name'] = ts['name'] + '_start'
        ts['beh'][0]['dut'] = t.chance(700, 'dut')
        ts['opts']['run_if'] = None
        spec['test_start'] = ts
        self.phases.remove(ts)
    spec['nodes'] = self.nodes(0, False, False, 1, 4)
    while self.n_nodes < 2 and t.chance(700, 'more'):
      spec['nodes'].append(self.node(0, False, False))
    tds = []
    if self.chance('p_test_diag'):
      for j in range(1 + t.draw(2, 'ntd')):
        o = t.weighted([(3, 'one'), (2, 'none'), (1, 'raise')], 'tdout')
        if o == 'raise':
          outs = 'raise'
        elif o == 'none':
          outs = []
        else:
          outs = [[t.draw(6, 'r'), 1 if t.chance(400, 'isfail') else 0]]
        tds.append({'name': 'td%d' % j, 'outs': outs, 'always_fail': t.chance(100, 'af')})
    spec['test_diags'] = tds
    # plugs
    plug_cfg = [{'ctor': 'ok', 'teardown': 'ok'} for _ in range(max(3, p.get('n_plug_classes', 3)))]
    if p.get('plug_faults') and t.chance(p['plug_faults'], 'plugfault'):
      i = t.draw(3, 'which_plug')
      f = t.weighted([(3, ('ctor', 'raise')), (3, ('teardown', 'raise')), (2, ('teardown', 'hang')),
                      (2, ('teardown', 'slow')), (1, ('teardown', 'hang_u')), (2, ('teardown', 'raise_base'))], 'pf')
      plug_cfg[i][f[0]] = f[1]
      if f[1] in ('hang', 'hang_u') or t.chance(300, 'ptt'):
        settings['plug_teardown_timeout_s'] = t.pick([1.0, 0.3], 'ptt')
    spec['plug_cfg'] = plug_cfg
    # callbacks
    ncb = 1 + t.draw(3, 'ncb')
    cbs = []
    for _ in range(ncb):
      cbs.append('raise' if self.chance('p_callbacks_raise') else 'ok')
    spec['callbacks'] = cbs
    # all (unmonitored) phases built on one shared function object
    spec['share_function'] = bool(p.get('p_share_function')) and t.chance(p['p_share_function'], 'share_function')
    # a DUT id with a per-cent sign in it (it ends up in log messages and file names)
    spec['dut_percent'] = bool(p.get('p_dut_percent')) and t.chance(p['p_dut_percent'], 'dut_percent')
    # Test.execute(profile_filename=...): every phase thread runs under cProfile
    spec['profile'] = bool(p.get('p_profile')) and t.chance(p['p_profile'], 'profile')
    spec['watchers'] = t.draw(3, 'nwatch') if p.get('watchers') and t.chance(p['watchers'], 'watch') else 0
    # abort
    spec['abort'] = None
    if p.get('abort') and t.chance(p['abort'], 'abort'):
      ab = {'mode': 'sigint' if t.chance(p.get('sigint', 0), 'sigint') else 'thread',
            'count': 2 if t.chance(p.get('abort2', 0), 'abort2') else 1}
      spec['abort'] = ab
    spec['phases'] = [ph['name'] for ph in self.phases]
    return spec


def iter_nodes(nodes):
  """All nodes of a spec tree, depth first."""
  for n in nodes or []:
    yield n
    if n['t'] in ('seq', 'subtest', 'branch'):
      for m in iter_nodes(n['nodes']):
        yield m
    elif n['t'] == 'group':
      for part in ('setup', 'main', 'teardown'):
        for m in iter_nodes(n.get(part)):
          yield m


def all_phase_specs(spec):
  out = [n for n in iter_nodes(spec['nodes']) if n['t'] == 'phase']
  return out


def shape_of(spec):
  """A structural fingerprint of the node tree (for 'distinct program shapes')."""
  def f(nodes):
    out = []
    for n in nodes or []:
      if n['t'] == 'phase':
        out.append('p')
      elif n['t'] in ('seq', 'subtest', 'branch'):
        out.append(n['t'][0:2] + '(' + f(n['nodes']) + ')')
      elif n['t'] == 'group':
        out.append('g(' + f(n.get('setup')) + '|' + f(n.get('main')) + '|' + f(n.get('teardown')) + ')')
      else:
        out.append('c')
    return ''.join(out)
  return f(spec['nodes'])
