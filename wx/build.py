"""Builds a real openhtf.Test from a W-exec program spec."""
import openhtf as htf
from openhtf.core import phase_branches
from openhtf.util import validators

from workloads import bodies


def _validator(v):
  if v is None:
    return None
  if v[0] == 'in_range':
    return validators.in_range(v[1], v[2])
  if v[0] == 'equals':
    return validators.equals(v[1])
  raise AssertionError(v)


def build_phase(ctx, spec, derive_style=0):
  """spec -> PhaseDescriptor, going through the public derive/decorate API."""
  fn = bodies.make_body(ctx, spec)
  o = spec['opts']
  kw = {}
  if getattr(ctx, 'share_function', False) and not spec.get('monitor') and not spec.get('bare'):
    # every such phase is built on the same function object; the phase name comes from an option
    if ctx.shared_fn is None:
      ctx.shared_fn = bodies.make_shared_body(ctx)
    fn = ctx.shared_fn
    kw['name'] = spec['name']
  if o['timeout_s'] is not None:
    kw['timeout_s'] = o['timeout_s']
  if o['run_if'] is not None:
    kw['run_if'] = bodies.make_run_if(ctx, spec)
  for k in ('repeat_limit',):
    if o[k] is not None:
      kw[k] = o[k]
  for k in ('force_repeat', 'repeat_on_measurement_fail', 'repeat_on_timeout', 'stop_on_measurement_fail'):
    if o[k]:
      kw[k] = True
  ph = fn
  if spec.get('monitor'):
    from openhtf.core import monitors
    ph = monitors.monitors('mon_' + spec['name'], bodies.make_monitor(ctx, spec['name']),
                           poll_interval_ms=spec['monitor']['interval_ms'])(fn)
  meas = []
  for m in spec['meas']:
    mm = htf.Measurement(m['name'])
    if m.get('dim'):
      mm = mm.with_dimensions('ms')
    v = _validator(m['validator'])
    if v is not None:
      mm = mm.with_validator(v)
    meas.append(mm)
  diags = [bodies.ScriptedPhaseDiagnoser(ctx, d) for d in spec['diags']]
  for d in spec['diags']:
    ctx.diag_specs[d['name']] = d
  plug_map = {}
  pool = bodies.PLUGS[ctx.tag]
  for argname, pi in sorted(spec['plugs'].items()):
    plug_map[argname] = pool[pi]
  steps = []
  if kw:
    steps.append(lambda p: htf.PhaseOptions(**kw)(p))
  if meas:
    steps.append(lambda p: htf.measures(*meas)(p))
  if diags:
    steps.append(lambda p: htf.diagnose(*diags)(p))
  if plug_map:
    steps.append(lambda p: htf.plug(**plug_map)(p))
  # the order of decoration must not matter; derive_style rotates it
  if steps:
    r = derive_style % len(steps)
    steps = steps[r:] + steps[:r]
  for s in steps:
    ph = s(ph)
  if not steps:
    ph = htf.PhaseDescriptor.wrap_or_copy(ph)
  return ph


def _cond(cond, results):
  rs = [bodies.RESULTS[r] for r in results]
  return {
      'ANY': htf.DiagnosisCondition.on_any,
      'ALL': htf.DiagnosisCondition.on_all,
      'NOT_ANY': htf.DiagnosisCondition.on_not_any,
      'NOT_ALL': htf.DiagnosisCondition.on_not_all,
  }[cond](*rs)


def build_nodes(ctx, nodes, style):
  out = []
  for n in nodes or []:
    t = n['t']
    if t == 'phase':
      out.append(build_phase(ctx, n, style))
    elif t == 'seq':
      out.append(htf.PhaseSequence(*build_nodes(ctx, n['nodes'], style), name=n['name']))
    elif t == 'subtest':
      out.append(htf.Subtest(n['name'], *build_nodes(ctx, n['nodes'], style)))
    elif t == 'branch':
      out.append(htf.BranchSequence(_cond(n['cond'], n['results']),
                                    *build_nodes(ctx, n['nodes'], style), name=n['name']))
    elif t == 'group':
      out.append(htf.PhaseGroup(
          setup=build_nodes(ctx, n['setup'], style) if n.get('setup') else None,
          main=build_nodes(ctx, n['main'], style) if n.get('main') else None,
          teardown=build_nodes(ctx, n['teardown'], style) if n.get('teardown') else None,
          name=n['name']))
    elif t == 'ckpt_fail':
      action = bodies.PHASE_RESULTS[n['action']]
      prev = {'LAST': phase_branches.PreviousPhases.LAST, 'ALL': phase_branches.PreviousPhases.ALL,
              'SUBTEST': phase_branches.PreviousPhases.SUBTEST}[n['prev']]
      out.append(htf.PhaseFailureCheckpoint(n['name'], action, prev))
    elif t == 'ckpt_diag':
      action = bodies.PHASE_RESULTS[n['action']]
      out.append(htf.DiagnosisCheckpoint(n['name'], _cond(n['cond'], n['results']), action))
    else:
      raise AssertionError(t)
  return out


def build_test(ctx, spec, sink, style=0):
  """Returns (test, test_start argument)."""
  ctx.share_function = bool(spec.get('share_function'))
  nodes = build_nodes(ctx, spec['nodes'], style)
  test = htf.Test(*nodes, test_name='wexec' + spec.get('tag', ''))
  s = spec['settings']
  cfg = {}
  if s['stop_on_first_failure']:
    cfg['stop_on_first_failure'] = True
  if s['failure_exceptions']:
    cfg['failure_exceptions'] = [bodies.FailExc]
  if cfg:
    test.configure(**cfg)
  if spec['test_diags']:
    test.add_test_diagnosers(*[bodies.ScriptedTestDiagnoser(ctx, d) for d in spec['test_diags']])
  cbs = [bodies.make_callback(ctx, i, kind, sink) for i, kind in enumerate(spec['callbacks'])]
  test.add_output_callbacks(*cbs)
  for i, c in enumerate(spec['plug_cfg']):
    ctx.plug_cfg[bodies.PLUGS[ctx.tag][i].LABEL] = c
  ctx.dut_percent = bool(spec.get('dut_percent'))
  ts = spec['test_start']
  if ts is None:
    start = None
  elif ts == 'lambda':
    start = (lambda: 'SN%2Flambda 100%') if spec.get('dut_percent') else (lambda: 'dut_lambda')
  else:
    start = build_phase(ctx, ts, style)
  return test, start, cbs


def conf_values(spec):
  s = spec['settings']
  out = {}
  if s['conf_stop_on_first_failure']:
    out['stop_on_first_failure'] = True
  if s['allow_unset']:
    out['allow_unset_measurements'] = True
  if s['cancel_timeout_s'] != 2:
    out['cancel_timeout_s'] = s['cancel_timeout_s']
  if s['plug_teardown_timeout_s']:
    out['plug_teardown_timeout_s'] = s['plug_teardown_timeout_s']
  return out
