"""W-meas: measurement assignment histories inside a real phase (C06, C10)."""
import base64
import copy
import io
import json
import math

from simkit import core
from simkit import env

VALUES = ['five', 'zero', 'fifty', 'neg', 'ten', 'none', 'nan', 'str', 'frac', 'true', 'inf', 'ninf', 'list', 'dict',
          'tuple', 'enum', 'bigint', 'one', 'onef', 'false', 'zerof', 'fivef']


def value_of(tag):
  from workloads import mbodies
  return {
      'five': 5, 'zero': 0, 'fifty': 50, 'neg': -1, 'ten': 10, 'none': None, 'nan': float('nan'), 'str': 'abc',
      'frac': 2.25, 'true': True, 'inf': float('inf'), 'ninf': float('-inf'), 'list': [1, 2.5, 'x', None],
      'dict': {'k': 1, 'n': float('nan')}, 'tuple': (1, (2, 'y')), 'enum': mbodies.Color.RED, 'bigint': 2 ** 70,
      # values that compare equal but render differently
      'one': 1, 'onef': 1.0, 'false': False, 'zerof': 0.0, 'fivef': 5.0,
  }[tag]


NUMERIC = ['five', 'zero', 'fifty', 'neg', 'ten', 'frac', 'one', 'onef', 'zerof', 'fivef']


def gen(tape, for_c10=False):
  nmeas = 1 + tape.draw(3, 'nmeas')
  meas = []
  for j in range(nmeas):
    dims = tape.weighted([(5, 0), (3, 1), (1, 2)], 'dims')
    m = {'name': 'meas%d' % j, 'dims': dims, 'transform': None, 'validators': [], 'cond': None, 'numeric': False}
    m['numeric'] = tape.chance(600, 'numeric')
    if tape.chance(300, 'transform'):
      m['transform'] = tape.pick(['x2', 'prec1', 'str'], 'tf') if m['numeric'] else tape.pick(['x2', 'str'], 'tf')
    for _ in range(tape.draw(3, 'nval')):
      if dims:
        v = tape.weighted([(3, ['all_le', 20]), (1, ['true']), (1, ['false']), (1, ['raises']), (1, ['raises_if_gt', 40])], 'val')
      else:
        v = tape.weighted([(4, ['in_range', 0, 10, None, None]), (3, ['in_range', 0, 10, 2, 8]), (1, ['equals', 5]),
                           (1, ['true']), (1, ['false']), (1, ['raises_if_gt', 40]), (1, ['all_le', 20])], 'val')
      m['validators'].append(v)
    if tape.chance(200, 'cond'):
      m['cond'] = ['all_le', 7] if dims else tape.pick([['in_range', 4, 6, None, None], ['all_le', 7]], 'condv')
    meas.append(m)
  ops = []
  nops = 1 + tape.draw(12, 'nops')
  att = 0
  for _ in range(nops):
    k = tape.weighted([(8, 'assign'), (1, 'bad_coords'), (1, 'undeclared'), (1, 'dim_no_index'),
                       (3 if for_c10 else 1, 'read'), (2 if for_c10 else 0, 'attach'), (1, 'log')], 'op')
    mi = tape.draw(nmeas, 'mi')
    m = meas[mi]
    pool = NUMERIC if m['numeric'] else VALUES
    if k == 'assign':
      v = tape.pick(pool, 'v')
      if m['dims'] == 0:
        ops.append([tape.pick(['set', 'set', 'setattr'], 'how'), mi, v])
      elif m['dims'] == 1:
        ops.append(['setdim', mi, tape.pick([1, 2, 3, 'a'], 'coord'), v])
      else:
        ops.append(['setdim', mi, (tape.pick([1, 2], 'c0'), tape.pick(['x', 'y'], 'c1')), v])
    elif k == 'bad_coords':
      if m['dims'] == 1:
        ops.append(['bad_coords', mi, tape.pick([(1, 2), (), (1, 2, 3)], 'bc')])
      elif m['dims'] == 2:
        ops.append(['bad_coords', mi, tape.pick([1, (1,), (1, 2, 3), 'ab'], 'bc')])
      else:
        ops.append(['undeclared'])
    elif k == 'undeclared':
      ops.append(['undeclared'])
    elif k == 'dim_no_index':
      if m['dims']:
        ops.append(['dim_no_index', mi])
      else:
        ops.append(['log'])
    elif k == 'read':
      ops.append(['read'])
    elif k == 'attach':
      att += 1
      ops.append(['attach', 'att%d.%s' % (att, tape.pick(['txt', 'bin', 'png'], 'ext')),
                  tape.pick(['payload', '', '\x00\xff binary \n', 'x' * 300], 'adata')])
    else:
      ops.append(['log'])
  return {'meas': meas, 'ops': ops, 'pre_diag': tape.chance(400, 'pre_diag'), 'pre_diag_internal': tape.chance(400, 'pre_diag_internal'), 'pre_attach': tape.chance(500, 'pre_attach'), 'allow_unset': tape.chance(200, 'allow_unset'),
          'inline_attachments': tape.chance(600, 'inline'), 'allow_nan': tape.chance(200, 'allow_nan'),
          'watcher': tape.chance(300, 'watcher') if for_c10 else False,
          'chatter': (1 + tape.draw(4, 'nchatter')) if (for_c10 and tape.chance(300, 'chatter')) else 0,
          # the same Test executed once before the observed run; in that earlier run the
          # pre-diagnosis result exists (conditional validators active), in the observed one it does not
          'prior_run': (not for_c10) and tape.chance(250, 'prior_run')}


def make_validator(v):
  from openhtf.util import validators
  from workloads import mbodies
  if v[0] == 'in_range':
    kw = {}
    if v[3] is not None:
      kw = {'marginal_minimum': v[3], 'marginal_maximum': v[4]}
    return validators.in_range(v[1], v[2], **kw)
  if v[0] == 'equals':
    return validators.equals(v[1])
  return mbodies.Scripted(v[0], v[1] if len(v) > 1 else None)


def build(ctx, spec, sink, hooks):
  import openhtf as htf
  from workloads import bodies, mbodies
  ml = []
  for m in spec['meas']:
    mm = htf.Measurement(m['name'])
    if m['dims']:
      mm = mm.with_dimensions(*['dim%d' % i for i in range(m['dims'])])
    if m['transform'] == 'prec1':
      mm = mm.with_precision(1)
    elif m['transform']:
      mm = mm.with_transform(mbodies.TRANSFORMS[m['transform']])
    for v in m['validators']:
      mm = mm.with_validator(make_validator(v))
    if m['cond']:
      mm = mm.validate_on({bodies.R.R0: make_validator(m['cond'])})
    ml.append(mm)
  phase = htf.PhaseOptions(requires_state=True)(htf.measures(*ml)(mbodies.make_meas_phase(ctx, spec, hooks)))
  nodes = [phase]
  if spec['pre_diag'] or spec.get('prior_run'):
    names = [op[1] for op in spec['ops'] if op[0] == 'attach'] if spec.get('pre_attach') else []
    nodes.insert(0, mbodies.make_diag_phase(ctx, spec.get('pre_diag_internal', False), names,
                                            first_run_only=bool(spec.get('prior_run'))))
  test = htf.Test(*nodes, test_name='wmeas')
  test.add_output_callbacks(lambda rec: sink.append(rec))
  return test


# ---------------------------------------------------------------- reference model
class Expect(object):
  pass


def model(spec):
  """Expected final state of every measurement and of the phase."""
  from workloads import mbodies
  exp = Expect()
  exp.meas = {}
  exp.phase_error = False
  exp.stopped_at = None
  exp.rejected = []
  state = {}
  for m in spec['meas']:
    state[m['name']] = {'assigned': False, 'value': None, 'coords': []}

  def active_validators(m):
    vs = [make_validator(v) for v in m['validators']]
    if m['cond'] and spec['pre_diag']:
      vs.append(make_validator(m['cond']))
    return vs

  def judge(m, recorded):
    """(outcome, marginal, raised)"""
    try:
      ok = all(v(recorded) for v in active_validators(m))
    except Exception:  # pylint: disable=broad-except
      return 'FAIL', False, True
    if not ok:
      return 'FAIL', False, False
    marg = False
    for v in active_validators(m):
      if hasattr(v, 'is_marginal') and v.is_marginal(recorded):
        marg = True
    return 'PASS', marg, False

  for i, op in enumerate(spec['ops']):
    k = op[0]
    if k in ('set', 'setattr'):
      m = spec['meas'][op[1]]
      st = state[m['name']]
      st['assigned'] = True
      st['value'] = mbodies.apply_transform(m['transform'], value_of(op[2]))
      oc, mg, raised = judge(m, st['value'])
      if raised:
        exp.phase_error = True
        exp.stopped_at = i
        break
    elif k == 'setdim':
      m = spec['meas'][op[1]]
      st = state[m['name']]
      st['assigned'] = True
      c = op[2] if isinstance(op[2], tuple) else (op[2],)
      v = mbodies.apply_transform(m['transform'], value_of(op[3]))
      for item in st['coords']:
        if item[0] == c:
          item[1] = v
          break
      else:
        st['coords'].append([c, v])
    elif k in ('bad_coords', 'undeclared', 'dim_no_index'):
      exp.rejected.append(i)
  for m in spec['meas']:
    st = state[m['name']]
    if not st['assigned']:
      exp.meas[m['name']] = {'outcome': 'UNSET', 'marginal': False, 'value': None, 'set': False}
      continue
    if m['dims']:
      recorded = [tuple(c) + (v,) for c, v in st['coords']]
    else:
      recorded = st['value']
    oc, mg, raised = judge(m, recorded)
    if raised and m['dims']:
      exp.phase_error = True    # raised at phase end
    exp.meas[m['name']] = {'outcome': oc, 'marginal': mg, 'value': recorded, 'set': True}
  return exp


def same_value(a, b):
  """Structural equality that treats NaN as equal to NaN and distinguishes types."""
  if isinstance(a, float) and isinstance(b, float):
    return (math.isnan(a) and math.isnan(b)) or a == b
  if type(a) is not type(b):
    if isinstance(a, (list, tuple)) and isinstance(b, (list, tuple)):
      pass
    else:
      return False
  if isinstance(a, (list, tuple)):
    return len(a) == len(b) and all(same_value(x, y) for x, y in zip(a, b))
  if isinstance(a, dict):
    return set(a) == set(b) and all(same_value(a[k], b[k]) for k in a)
  return a == b


def fresh_base(value):
  """From-scratch base-type rendering of a measurement value (independent of openhtf caches)."""
  import enum
  if isinstance(value, enum.Enum):
    return value.name
  if value is None or isinstance(value, (bool, str)):
    return value
  if isinstance(value, int):
    return int(value)
  if isinstance(value, float):
    if math.isnan(value) or math.isinf(value):
      return str(value)
    return value
  if isinstance(value, list):
    return [fresh_base(v) for v in value]
  if isinstance(value, tuple):
    return tuple(fresh_base(v) for v in value)
  if isinstance(value, dict):
    return {fresh_base(k): fresh_base(v) for k, v in value.items()}
  return str(value)


def to_json_shape(v):
  """What a strict JSON round trip makes of a base-type value."""
  if isinstance(v, (list, tuple)):
    return [to_json_shape(x) for x in v]
  if isinstance(v, dict):
    return {str(k): to_json_shape(x) for k, x in v.items()}
  return v


# ------------------------------------------------------------------------ run
def run(tape, for_c10):
  """Returns (sim, spec, exp, record or None, observations, failed)."""
  import threading
  from openhtf.util import configuration
  from workloads import bodies
  env.hygiene()
  spec = gen(tape, for_c10)
  if spec.get('prior_run'):
    spec['pre_diag'] = False   # (for the observed, second run)
  exp = model(spec)
  knobs = core.Knobs(p_sync=tape.pick([0, 100], 'p_sync'), gap_mean=tape.pick([0, 0, 60], 'gap'), max_steps=800000,
                     max_time=300.0)
  sim = core.Sim(tape, env.TRACE_PREFIXES, knobs)
  ctx = bodies.Ctx(sim)
  bodies.CURRENT[''] = ctx
  sink = []
  obs = {'reads': [], 'watch': []}

  wout = {}

  def read_hook(state, i):
    # (an inline read never overlaps with the watcher's own rendering: two overlapping
    # as_base_types() calls are a separate, known matter)
    while wout.get('in_render'):
      core.sim_sleep(0)
    nlogs_before = len(state.test_record.log_records)
    snap = state.as_base_types()
    nlogs_rendered = len(snap['test_record']['log_records'])   # (the rendered list is the live cache: count it now)
    nlogs_after = len(state.test_record.log_records)
    rps = snap['running_phase_state']
    live = state.running_phase_state
    item = {'op': i, 'meas': {}, 'att': None}
    if rps is not None and live is not None:
      for name, mobj in live.measurements.items():
        rendered = rps['measurements'].get(name)
        mv = mobj.measured_value
        item['meas'][name] = {
            'rendered_outcome': rendered.get('outcome') if rendered else None,
            'outcome': mobj.outcome.name,
            'rendered_has_value': rendered is not None and 'measured_value' in rendered,
            'rendered_value': copy.deepcopy(rendered.get('measured_value')) if rendered else None,
            'is_set': bool(mv.is_value_set),
            'fresh_value': fresh_base(mv.value) if mv.is_value_set else None,
        }
      item['att'] = (copy.deepcopy(rps['attachments']),
                     dict((n, {'mimetype': a.mimetype, 'sha1': a.sha1}) for n, a in live.attachments.items()))
      # (another thread of the phase may be logging meanwhile: the rendering must lie in between)
      item['nlogs'] = (nlogs_rendered, nlogs_before, nlogs_after)
    obs['reads'].append(item)

  hooks = {'value': value_of, 'read': read_hook}
  test = build(ctx, spec, sink, hooks)
  CONF = configuration.CONF
  if spec['allow_unset']:
    CONF.load(allow_unset_measurements=True, _override=True)
  failed = None
  try:
    with env.NoGC(10):
      sim.begin()
      try:
        if spec['watcher']:

          def watch():
            while True:
              st = test.state
              if st is None:
                if wout.get('done'):
                  return
                core.sim_sleep(0)
                continue
              wout['in_render'] = True
              try:
                snap, ev = st.asdict_with_event()
              except RuntimeError:
                wout['in_render'] = False
                core.sim_sleep(0)
                continue
              wout['in_render'] = False
              if snap['status'] == 'COMPLETED':
                return
              ev.wait()

          wt = threading.Thread(target=watch, name='watcher')
          wt.daemon = True
          wt.start()
        if spec.get('prior_run'):
          test.execute()
          obs['log_from'] = len(sim.log)
          obs['prior_run'] = True
        obs['ret'] = test.execute()
        if spec['watcher']:
          wout['done'] = True
          wt.join()
      except core.SimAbort:
        pass
      finally:
        failed = sim.failed
        sim.end()
  finally:
    if spec['allow_unset']:
      CONF.reset()
    bodies.CURRENT.pop('', None)
  return sim, spec, exp, (sink[-1] if sink and len(sink) == (2 if spec.get('prior_run') else 1) else None), obs, failed
