"""Shared plumbing of the W-exec based checks."""
from simkit import env
from wx import gen as gen_mod
from wx import oracles
from wx import run as run_mod

W_EXEC_COMPONENTS = {
    'real': ['openhtf.core.test_descriptor.Test.execute', 'openhtf.core.test_executor.TestExecutor',
             'openhtf.core.phase_executor (PhaseExecutor, PhaseExecutorThread)', 'openhtf.core.test_state',
             'openhtf.core.phase_descriptor / phase_collections / phase_group / phase_branches',
             'openhtf.core.diagnoses_lib', 'openhtf.core.measurements', 'openhtf.core.test_record',
             'openhtf.plugs.PlugManager', 'openhtf.util.threads.KillableThread', 'openhtf.util.logs',
             'openhtf.util.configuration', 'CPython threading.Condition/Event/Thread, logging'],
    'simulated': ['locks (threading.Lock/RLock)', 'thread scheduling (baton passing, line-level pre-emption)',
                  'clock / sleep / deadlines (virtual time)', 'PyThreadState_SetAsyncExc (async kill)',
                  'SIGINT delivery on the main thread', 'uuid4 / getpid (deterministic counters)'],
    'stub': ['phase bodies, plugs, diagnosers, output callbacks, operator and watcher threads are generated '
             'workload code (workloads/bodies.py)'],
    'reference_model': 'wx/model.py (M_exec/M_phase), independent of openhtf',
}

W_EXEC_ASSUMPTIONS = [
    'pre-emption granularity: one source line of openhtf / workload code plus every lock, event, sleep, join',
    'async kill is delivered at the target thread\'s next traced line or blocking primitive (where CPython would raise it: the point at which the target thread resumes); the line events adjacent to a `with` statement are not steps',
    'executing code costs zero virtual time; only sleeps/timeouts advance the clock',
    'reference model M_exec follows docs/event_sequence.md as read in DESIGN.md Appendix A',
]


def setup():
  env.import_openhtf()
  import workloads.bodies  # noqa: F401  pylint: disable=unused-import,g-import-not-at-top
  warm_up()


def warm_up():
  """One throw-away run so that one-time initialisations (tempfile, mimetypes, attrs, inspect
  caches...) have happened before the first recorded run - in workers and in replay processes alike."""
  import mimetypes
  import tempfile
  from simkit import tape as tape_mod
  tempfile.gettempdir()
  mimetypes.init()
  for seed in (1, 2, 3):
    tp = tape_mod.Tape(seed=seed)
    prof = gen_mod.profile(p_plug=400, p_attach=500, p_logs=600, p_timeout=100, abort=500, watchers=500,
                           p_test_start=500, p_test_diag=500)
    g = gen_mod.Gen(tp, prof)
    spec = g.program()
    run_mod.run_spec(tp, spec)


def run_with(tape, prof, oracle_fns, nontrivial_fn=None, executes=1, extra_threads=None, pre=None):
  g = gen_mod.Gen(tape, prof)
  spec = g.program()
  if pre is not None:
    pre(tape, spec)
  style = tape.draw(4, 'style')
  obs = run_mod.run_spec(tape, spec, style=style, extra_threads=extra_threads, executes=executes)
  viols = []
  probes = {}
  act = oracles.Actual(obs)
  if obs.failed in ('deadlock', 'hang'):
    # liveness failures are reported by the properties that own them; for
    # the others they are surfaced as harness-visible abnormal ends
    pass
  for fn in oracle_fns:
    fn(obs, act, viols, probes)
  if nontrivial_fn is not None:
    nt = nontrivial_fn(obs, act)
  else:
    nt = bool(obs.model.probe) or bool(obs.faults) or any(c not in 'p' for c in gen_mod.shape_of(spec))
  res = run_mod.result_from(obs, viols, probes, nt)
  if obs.failed in ('deadlock', 'hang') and not res.get('abnormal') and not viols:
    if obs.sim.sigint_sites and oracles.c04 not in oracle_fns:
      # SIGINT-handler deadlocks are decided (and their findings owned) by C04
      res['probes']['sigint_deadlock_left_to_C04'] = 1
    else:
      res['abnormal'] = '%s: %s' % (obs.failed, obs.failed_info)
  return res
