"""Oracles over W-exec observations (one function per property)."""
from wx import gen as gen_mod


def result_kind(res):
  if res is None:
    return 'NORESULT'
  pr = res.phase_result
  if pr is None:
    return 'TIMEOUT'
  tn = type(pr).__name__
  if tn == 'ExceptionInfo':
    return 'EXC:' + pr.exc_type.__name__
  if tn == 'ThreadTerminationError':
    return 'KILLED'
  return pr.name


class Actual(object):
  """The facts of a run, extracted from the record and the event log."""

  def __init__(self, obs):
    self.obs = obs
    self.rec = obs.sink[0][1] if obs.sink else None
    rec = self.rec
    self.outcome = rec.outcome.name if rec is not None and rec.outcome is not None else None
    self.phases = []
    self.subtests = []
    self.branches = []
    self.ckpts = []
    if rec is not None:
      for p in rec.phases:
        self.phases.append((p.name, p.outcome.name if p.outcome else None, p.subtest_name,
                            result_kind(p.result)))
      self.subtests = [(s.name, s.outcome.name if s.outcome else None) for s in rec.subtests]
      self.branches = [(b.name, b.branch_taken) for b in rec.branches]
      self.ckpts = [(c.name, result_kind(c.result)) for c in rec.checkpoints]
    self.invocations = [(e[4], e[5]) for e in obs.log if e[3] == 'body_start']
    self.diag_events = [(e[4], e[5], e[6]) for e in obs.log if e[3] == 'diag']
    self.test_diag_events = [e[4] for e in obs.log if e[3] == 'test_diag']
    # only the executor thread counts; killed phase threads legitimately end
    # with ThreadTerminationError (a SystemExit)
    self.thread_died = [e for e in obs.log if e[3] == 'thread_died' and e[7] == 'TestExecutorThread'
                        and e[5] != 'ThreadTerminationError']


def _v(clause, **details):
  return {'clause': clause, 'details': details}


def runif_reevaluated(obs):
  """Known deviation: run_if evaluated again after it returned false.

  Returns details of the first phase showing it, else None.  (The property
  says a false run_if means the body is never invoked; under force_repeat /
  repeat_on_measurement_fail the executor loops and asks again.)
  """
  seen_false = {}
  for e in obs.log:
    if e[3] == 'run_if':
      name, n, val = e[4], e[5], e[6]
      if name in seen_false:
        ph = None
        for p in gen_mod.all_phase_specs(obs.spec):
          if p['name'] == name:
            ph = p
        opt = 'none'
        if ph is not None:
          if ph['opts']['force_repeat']:
            opt = 'force_repeat'
          elif ph['opts']['repeat_on_measurement_fail']:
            opt = 'repeat_on_measurement_fail'
        return {'phase': name, 'option': opt, 'evaluation': n, 'value': val}
      if val == 'False':
        seen_false[name] = n
  return None


def exact_ok(obs):
  """True when the reference model is exact for this run."""
  if 'runif_reeval' not in obs.extra:
    obs.extra['runif_reeval'] = runif_reevaluated(obs)
  return (not obs.aborted and not obs.model.ambiguous and obs.failed is None
          and obs.extra['runif_reeval'] is None)


# ------------------------------------------------------------------------ C01
def c01(obs, act, viols, probes):
  m = obs.model
  rec = act.rec
  if rec is None:
    if obs.failed is None:
      viols.append(_v('no_record_delivered', exc=obs.exc))
    return
  s = obs.spec['settings']
  passed = act.outcome == 'PASS' or obs.ret is True
  if obs.exc is None and (obs.ret is True) != (act.outcome == 'PASS'):
    viols.append(_v('return_value_vs_outcome', ret=obs.ret, outcome=act.outcome))
  if passed:
    probes['pass_runs'] = probes.get('pass_runs', 0) + 1
    bad = [p for p in act.phases if p[1] in ('FAIL', 'ERROR', None)]
    if bad:
      # classify: a timed-out invocation that repeat_on_timeout retried
      specs = dict((ph['name'], ph) for ph in gen_mod.all_phase_specs(obs.spec))
      if isinstance(obs.spec['test_start'], dict):
        specs[obs.spec['test_start']['name']] = obs.spec['test_start']
      causes = set()
      for i, p in enumerate(act.phases):
        if p[1] not in ('FAIL', 'ERROR', None):
          continue
        later_same = any(q[0] == p[0] for q in act.phases[i + 1:])
        ph = specs.get(p[0])
        if (p[1] == 'ERROR' and p[3] == 'TIMEOUT' and later_same and ph is not None
            and ph['opts']['repeat_on_timeout']):
          causes.add('timeout_invocation_retried')
        else:
          causes.add('other')
      cause = 'timeout_invocation_retried' if causes == {'timeout_invocation_retried'} else 'other'
      viols.append(_v('pass_with_failed_phase', cause=cause, phases=bad[:4]))
    for p in rec.phases:
      for mn, meas in (p.measurements or {}).items():
        oc = meas.outcome.name
        if p.outcome is not None and p.outcome.name == 'SKIP':
          continue
        if oc == 'FAIL' or oc == 'PARTIALLY_SET' or (oc == 'UNSET' and not s['allow_unset']):
          viols.append(_v('pass_with_bad_measurement', phase=p.name, measurement=mn, outcome=oc))
    if any(d.is_failure for d in rec.diagnoses):
      viols.append(_v('pass_with_failure_diagnosis'))
    if any(x[1] == 'FAIL' for x in act.subtests):
      viols.append(_v('pass_with_failed_subtest'))
    if act.phases and all(p[1] == 'SKIP' for p in act.phases):
      viols.append(_v('pass_with_all_skipped'))
    died = [e for e in act.thread_died]
    if died:
      viols.append(_v('pass_although_executor_failed', exc=died[0][5], msg=died[0][6],
                      n_phase_records=len(act.phases)))
    if obs.aborted and any(e[3] == 'abort_ret' for e in obs.log):
      pass  # C04 decides abort outcomes
    if exact_ok(obs) and sorted(set(act.invocations)) != sorted(set(m.invocations)):
      viols.append(_v('pass_but_bodies_differ_from_declared',
                      missing=sorted(set(m.invocations) - set(act.invocations))[:5],
                      extra=sorted(set(act.invocations) - set(m.invocations))[:5]))
  if exact_ok(obs):
    if act.outcome not in m.outcomes:
      viols.append(_v('outcome_not_allowed', outcome=act.outcome, allowed=sorted(m.outcomes),
                      first_terminal=m.first_terminal,
                      executor_died=bool(act.thread_died),
                      died_exc=act.thread_died[0][5] if act.thread_died else None))
    for k in m.probe:
      probes['m_' + k] = probes.get('m_' + k, 0) + m.probe[k]
  elif not obs.aborted and obs.failed is None:
    probes['ambiguous_timing_runs'] = probes.get('ambiguous_timing_runs', 0) + 1
    if act.outcome == 'PASS' and m.first_terminal is not None and m.first_terminal != 'TIMEOUT':
      viols.append(_v('outcome_not_allowed', outcome=act.outcome, allowed=sorted(m.outcomes),
                      first_terminal=m.first_terminal, executor_died=bool(act.thread_died),
                      died_exc=act.thread_died[0][5] if act.thread_died else None))


# ------------------------------------------------------------------------ C02
def c02(obs, act, viols, probes):
  m = obs.model
  if act.rec is None:
    return
  if not exact_ok(obs):
    if obs.extra.get('runif_reeval'):
      viols.append(_v('run_if_reevaluated_after_false', **obs.extra['runif_reeval']))
    return
  pairs = [
      ('invocations', act.invocations, m.invocations),
      ('phase_records', [(p[0], p[1], p[2]) for p in act.phases], [(p[0], p[1], p[2]) for p in m.records]),
      ('subtest_records', act.subtests, m.subtests),
      ('branch_records', act.branches, m.branches),
      ('checkpoint_records', act.ckpts, m.ckpts),
  ]
  for name, a, e in pairs:
    if list(a) != list(e):
      i = 0
      while i < len(a) and i < len(e) and a[i] == e[i]:
        i += 1
      viols.append(_v('sequence_mismatch_' + name, first_diff_index=i,
                      actual=[list(x) for x in a[max(0, i - 1):i + 3]],
                      expected=[list(x) for x in e[max(0, i - 1):i + 3]],
                      executor_died=bool(act.thread_died)))
      break
  for k in m.probe:
    probes['m_' + k] = probes.get('m_' + k, 0) + m.probe[k]


# ------------------------------------------------------------------------ C05
def c05(obs, act, viols, probes):
  m = obs.model
  if act.rec is None:
    return
  if not exact_ok(obs):
    if obs.extra.get('runif_reeval'):
      viols.append(_v('run_if_reevaluated_after_false', **obs.extra['runif_reeval']))
    return
  specs = {}
  for ph in gen_mod.all_phase_specs(obs.spec):
    specs[ph['name']] = ph
  if isinstance(obs.spec['test_start'], dict):
    specs[obs.spec['test_start']['name']] = obs.spec['test_start']
  names = list(specs)
  for name in names:
    a = [(p[1], p[3]) for p in act.phases if p[0] == name]
    e = [(p[1], p[3]) for p in m.records if p[0] == name]
    ai = [x for x in act.invocations if x[0] == name]
    ei = [x for x in m.invocations if x[0] == name]
    limit = specs[name]['opts']['repeat_limit'] or 3
    if len(ai) > limit:
      viols.append(_v('invoked_more_than_repeat_limit', phase=name, invocations=len(ai), limit=limit))
    if ai != ei:
      viols.append(_v('invocation_count', phase=name, actual=len(ai), expected=len(ei),
                      opts={k: v for k, v in specs[name]['opts'].items() if v}))
    elif a != e:
      viols.append(_v('record_outcome_or_result', phase=name, actual=[list(x) for x in a],
                      expected=[list(x) for x in e],
                      opts={k: v for k, v in specs[name]['opts'].items() if v}))
    da = [x for x in act.diag_events if x[1] == name]
    de = [x for x in m.diag_events if x[1] == name]
    if da != de:
      viols.append(_v('diagnoser_runs', phase=name, actual=[list(x) for x in da][:6],
                      expected=[list(x) for x in de][:6]))
  for k in m.probe:
    probes['m_' + k] = probes.get('m_' + k, 0) + m.probe[k]
