"""Oracles over W-exec observations (one function per property)."""
from wx import gen as gen_mod


def result_kind(res):
  if res is None:
    return 'NORESULT'
  pr = res.phase_result
  if pr is None:
    return 'TIMEOUT'
  tn = type(pr).__name__
  if tn == 'ExceptionInfo':
    return 'EXC:' + pr.exc_type.__name__
  if tn == 'ThreadTerminationError':
    return 'KILLED'
  return pr.name


class Actual(object):
  """The facts of a run, extracted from the record and the event log."""

  def __init__(self, obs):
    self.obs = obs
    self.rec = obs.sink[0][1] if obs.sink else None
    rec = self.rec
    self.outcome = rec.outcome.name if rec is not None and rec.outcome is not None else None
    self.phases = []
    self.subtests = []
    self.branches = []
    self.ckpts = []
    if rec is not None:
      for p in rec.phases:
        self.phases.append((p.name, p.outcome.name if p.outcome else None, p.subtest_name,
                            result_kind(p.result)))
      self.subtests = [(s.name, s.outcome.name if s.outcome else None) for s in rec.subtests]
      self.branches = [(b.name, b.branch_taken) for b in rec.branches]
      self.ckpts = [(c.name, result_kind(c.result)) for c in rec.checkpoints]
    self.invocations = [(e[4], e[5]) for e in obs.log if e[3] == 'body_start']
    self.diag_events = [(e[4], e[5], e[6]) for e in obs.log if e[3] == 'diag']
    self.test_diag_events = [e[4] for e in obs.log if e[3] == 'test_diag']
    # only the executor thread counts; killed phase threads legitimately end
    # with ThreadTerminationError (a SystemExit)
    self.thread_died = [e for e in obs.log if e[3] == 'thread_died' and e[7] == 'TestExecutorThread'
                        and e[5] != 'ThreadTerminationError']


def _v(clause, **details):
  return {'clause': clause, 'details': details}


def runif_reevaluated(obs):
  """Known deviation: run_if evaluated again after it returned false.

  Returns details of the first phase showing it, else None.  (The property
  says a false run_if means the body is never invoked; under force_repeat /
  repeat_on_measurement_fail the executor loops and asks again.)
  """
  seen_false = {}
  for e in obs.log:
    if e[3] == 'run_if':
      name, n, val = e[4], e[5], e[6]
      if name in seen_false:
        ph = None
        for p in gen_mod.all_phase_specs(obs.spec):
          if p['name'] == name:
            ph = p
        opt = 'none'
        if ph is not None:
          if ph['opts']['force_repeat']:
            opt = 'force_repeat'
          elif ph['opts']['repeat_on_measurement_fail']:
            opt = 'repeat_on_measurement_fail'
        return {'phase': name, 'option': opt, 'evaluation': n, 'value': val}
      if val == 'False':
        seen_false[name] = n
  return None


def exact_ok(obs):
  """True when the reference model is exact for this run."""
  if 'runif_reeval' not in obs.extra:
    obs.extra['runif_reeval'] = runif_reevaluated(obs)
  return (not obs.aborted and not obs.model.ambiguous and obs.failed is None
          and obs.extra['runif_reeval'] is None)


# ------------------------------------------------------------------------ C01
def c01(obs, act, viols, probes):
  m = obs.model
  rec = act.rec
  if rec is None:
    if obs.failed is None:
      viols.append(_v('no_record_delivered', exc=obs.exc))
    return
  s = obs.spec['settings']
  passed = act.outcome == 'PASS' or obs.ret is True
  if obs.exc is None and (obs.ret is True) != (act.outcome == 'PASS'):
    viols.append(_v('return_value_vs_outcome', ret=obs.ret, outcome=act.outcome))
  if passed:
    probes['pass_runs'] = probes.get('pass_runs', 0) + 1
    bad = [p for p in act.phases if p[1] in ('FAIL', 'ERROR', None)]
    if bad:
      # classify: a timed-out invocation that repeat_on_timeout retried
      specs = dict((ph['name'], ph) for ph in gen_mod.all_phase_specs(obs.spec))
      if isinstance(obs.spec['test_start'], dict):
        specs[obs.spec['test_start']['name']] = obs.spec['test_start']
      causes = set()
      for i, p in enumerate(act.phases):
        if p[1] not in ('FAIL', 'ERROR', None):
          continue
        later_same = any(q[0] == p[0] for q in act.phases[i + 1:])
        ph = specs.get(p[0])
        if (p[1] == 'ERROR' and p[3] == 'TIMEOUT' and later_same and ph is not None
            and ph['opts']['repeat_on_timeout']):
          causes.add('timeout_invocation_retried')
        elif (p[1] == 'ERROR' and p[3] == 'TIMEOUT' and ph is not None and ph['opts']['repeat_on_timeout']
              and [e[6] for e in obs.log if e[3] == 'run_if' and e[4] == p[0]][-1:] == ['False']
              and len([e for e in obs.log if e[3] == 'run_if' and e[4] == p[0]]) >
              len([e for e in obs.log if e[3] == 'body_start' and e[4] == p[0]])):
          # the retry after the timeout was itself skipped because run_if (asked again) said no
          causes.add('timeout_retry_skipped_by_run_if')
        else:
          causes.add('other')
      cause = sorted(causes)[0] if len(causes) == 1 else 'other'
      viols.append(_v('pass_with_failed_phase', cause=cause, phases=bad[:4]))
    for p in rec.phases:
      for mn, meas in (p.measurements or {}).items():
        oc = meas.outcome.name
        if p.outcome is None or p.outcome.name != 'PASS':
          continue  # (FAIL / ERROR records are reported by pass_with_failed_phase; SKIP is exempt)
        if oc == 'FAIL' or oc == 'PARTIALLY_SET' or (oc == 'UNSET' and not s['allow_unset']):
          viols.append(_v('pass_with_bad_measurement', phase=p.name, measurement=mn, outcome=oc))
    if any(d.is_failure for d in rec.diagnoses):
      viols.append(_v('pass_with_failure_diagnosis'))
    if any(x[1] == 'FAIL' for x in act.subtests):
      viols.append(_v('pass_with_failed_subtest'))
    if act.phases and all(p[1] == 'SKIP' for p in act.phases):
      viols.append(_v('pass_with_all_skipped'))
    died = [e for e in act.thread_died]
    if died:
      viols.append(_v('pass_although_executor_failed', exc=died[0][5], msg=died[0][6],
                      n_phase_records=len(act.phases)))
    if obs.aborted and any(e[3] == 'abort_ret' for e in obs.log):
      pass  # C04 decides abort outcomes
    if exact_ok(obs) and sorted(set(act.invocations)) != sorted(set(m.invocations)):
      viols.append(_v('pass_but_bodies_differ_from_declared',
                      missing=sorted(set(m.invocations) - set(act.invocations))[:5],
                      extra=sorted(set(act.invocations) - set(m.invocations))[:5]))
  if exact_ok(obs):
    if act.outcome not in m.outcomes:
      viols.append(_v('outcome_not_allowed', outcome=act.outcome, allowed=sorted(m.outcomes),
                      first_terminal=m.first_terminal,
                      executor_died=bool(act.thread_died),
                      died_exc=act.thread_died[0][5] if act.thread_died else None))
    for k in m.probe:
      probes['m_' + k] = probes.get('m_' + k, 0) + m.probe[k]
  elif not obs.aborted and obs.failed is None:
    probes['ambiguous_timing_runs'] = probes.get('ambiguous_timing_runs', 0) + 1
    if act.outcome == 'PASS' and m.first_terminal is not None and m.first_terminal != 'TIMEOUT':
      viols.append(_v('outcome_not_allowed', outcome=act.outcome, allowed=sorted(m.outcomes),
                      first_terminal=m.first_terminal, executor_died=bool(act.thread_died),
                      died_exc=act.thread_died[0][5] if act.thread_died else None))


# ------------------------------------------------------------------------ C02
def c02(obs, act, viols, probes):
  m = obs.model
  if act.rec is None:
    return
  if not exact_ok(obs):
    if obs.extra.get('runif_reeval'):
      viols.append(_v('run_if_reevaluated_after_false', **obs.extra['runif_reeval']))
    return
  pairs = [
      ('invocations', act.invocations, m.invocations),
      ('phase_records', [(p[0], p[1], p[2]) for p in act.phases], [(p[0], p[1], p[2]) for p in m.records]),
      ('subtest_records', act.subtests, m.subtests),
      ('branch_records', act.branches, m.branches),
      ('checkpoint_records', act.ckpts, m.ckpts),
  ]
  for name, a, e in pairs:
    if list(a) != list(e):
      i = 0
      while i < len(a) and i < len(e) and a[i] == e[i]:
        i += 1
      viols.append(_v('sequence_mismatch_' + name, first_diff_index=i,
                      actual=[list(x) for x in a[max(0, i - 1):i + 3]],
                      expected=[list(x) for x in e[max(0, i - 1):i + 3]],
                      executor_died=bool(act.thread_died)))
      break
  for k in m.probe:
    probes['m_' + k] = probes.get('m_' + k, 0) + m.probe[k]


# ------------------------------------------------------------------------ C05
def c05(obs, act, viols, probes):
  m = obs.model
  if act.rec is None:
    return
  if not exact_ok(obs):
    if obs.extra.get('runif_reeval'):
      viols.append(_v('run_if_reevaluated_after_false', **obs.extra['runif_reeval']))
    return
  specs = {}
  for ph in gen_mod.all_phase_specs(obs.spec):
    specs[ph['name']] = ph
  if isinstance(obs.spec['test_start'], dict):
    specs[obs.spec['test_start']['name']] = obs.spec['test_start']
  names = list(specs)
  for name in names:
    a = [(p[1], p[3]) for p in act.phases if p[0] == name]
    e = [(p[1], p[3]) for p in m.records if p[0] == name]
    ai = [x for x in act.invocations if x[0] == name]
    ei = [x for x in m.invocations if x[0] == name]
    limit = specs[name]['opts']['repeat_limit'] or 3
    if len(ai) > limit:
      viols.append(_v('invoked_more_than_repeat_limit', phase=name, invocations=len(ai), limit=limit))
    if ai != ei:
      viols.append(_v('invocation_count', phase=name, actual=len(ai), expected=len(ei),
                      opts={k: v for k, v in specs[name]['opts'].items() if v}))
    elif a != e:
      viols.append(_v('record_outcome_or_result', phase=name, actual=[list(x) for x in a],
                      expected=[list(x) for x in e],
                      opts={k: v for k, v in specs[name]['opts'].items() if v}))
    da = [x for x in act.diag_events if x[1] == name]
    de = [x for x in m.diag_events if x[1] == name]
    if da != de:
      viols.append(_v('diagnoser_runs', phase=name, actual=[list(x) for x in da][:6],
                      expected=[list(x) for x in de][:6]))
  for k in m.probe:
    probes['m_' + k] = probes.get('m_' + k, 0) + m.probe[k]


# ----------------------------------------------------------------- helpers
def phase_roles(spec):
  """phase name -> 'teardown' if it sits under some group's teardown, else 'abortable'."""
  roles = {}

  def walk(nodes, td):
    for n in nodes or []:
      t = n['t']
      if t == 'phase':
        roles[n['name']] = 'teardown' if td else 'abortable'
      elif t in ('seq', 'subtest', 'branch'):
        walk(n['nodes'], td)
      elif t == 'group':
        walk(n.get('setup'), td)
        walk(n.get('main'), td)
        walk(n.get('teardown'), True)

  walk(spec['nodes'], False)
  if isinstance(spec['test_start'], dict):
    roles[spec['test_start']['name']] = 'abortable'
  return roles


def first_seq(log, kind, pred=None):
  for e in log:
    if e[3] == kind and (pred is None or pred(e)):
      return e[0]
  return None


def _closest(actual, variants):
  best, bl = None, -1
  for v in variants:
    i = 0
    while i < len(v) and i < len(actual) and v[i] == actual[i]:
      i += 1
    score = i * 1000 - abs(len(v) - len(actual))
    if score > bl:
      best, bl = v, score
  return best


def sigint_phases(obs):
  """For every SIGINT delivered to the main thread: where was execute()?

  'startup' (before it first waits for the executor), 'waiting' (inside the guarded
  TestExecutor.wait) or 'finishing' (after that wait: finalize / output callbacks / close).
  """
  log = obs.log
  w = first_seq(log, 'enter', lambda e: e[4] == 'wait' and e[5] == 'test_executor.py')
  fz = first_seq(log, 'enter', lambda e: e[4] == 'finalize' and e[5] == 'test_executor.py')
  out = []
  for d in log:
    if d[3] != 'sigint_delivered':
      continue
    if fz is not None and d[0] > fz:
      out.append('finishing')
    elif d[4] in ('wait', 'join'):
      out.append('waiting')
    elif w is None or d[0] < w:
      out.append('startup')
    else:
      out.append('waiting_nested')   # inside an earlier handler that interrupted the wait
  return out


def sigint_phase(obs):
  """The first phase other than 'waiting' in which a SIGINT was handled (else 'waiting')."""
  ph = sigint_phases(obs)
  if not ph:
    return None
  for p in ph:
    if p in ('startup', 'finishing'):
      return p
  return 'waiting'


def abort_effective(obs):
  """Was the test running (executor started / registered) when the first abort arrived?"""
  ab = obs.spec.get('abort')
  if not ab:
    return False
  log = obs.log
  if ab['mode'] == 'thread':
    c = first_seq(log, 'abort_call')
    st = first_seq(log, 'thread_start', lambda e: e[5] == 'TestExecutorThread')
    return c is not None and st is not None and st < c
  for e in log:
    if e[3] == 'sigint_delivered':
      return bool(e[6])
  return False


# ------------------------------------------------------------------------ C03
def c03(obs, act, viols, probes):
  from wx import model as model_mod
  if act.rec is None or obs.failed is not None:
    return
  ab = obs.spec.get('abort')
  if ab and ab['count'] > 1:
    return
  if obs.model.ambiguous:
    return
  if 'runif_reeval' not in obs.extra:
    obs.extra['runif_reeval'] = runif_reevaluated(obs)
  if obs.extra['runif_reeval'] is not None:
    return
  origins = {}
  if ab:
    variants, npoints, origins = model_mod.abort_variants(obs.spec, with_origins=True)
  else:
    variants, npoints = {tuple(obs.model.invocations)}, 0
  actual = tuple(act.invocations)
  roles = phase_roles(obs.spec)
  if ab:
    probes['abort_runs'] = probes.get('abort_runs', 0) + 1
    if actual != tuple(obs.model.invocations):
      probes['abort_changed_invocations'] = probes.get('abort_changed_invocations', 0) + 1
    # where did the abort land?
    ac = first_seq(obs.log, 'abort_call') or first_seq(obs.log, 'sigint_delivered')
    if ac is not None:
      open_body = None
      for e in obs.log:
        if e[0] > ac:
          break
        if e[3] == 'body_start':
          open_body = e[4]
        elif e[3] in ('body_end', 'body_exc'):
          open_body = None
      if open_body is None:
        probes['abort_between_phases'] = probes.get('abort_between_phases', 0) + 1
      elif roles.get(open_body) == 'teardown':
        probes['abort_during_teardown_phase'] = probes.get('abort_during_teardown_phase', 0) + 1
      else:
        probes['abort_during_abortable_phase'] = probes.get('abort_during_abortable_phase', 0) + 1
  consistent = actual in variants
  if consistent and ab and origins.get(actual):
    # a variant in which the abort killed invocation X explains the run only if X's record really
    # says "killed": an abort that arrives after the last setup phase has completed with its own
    # result does not make the group "not entered"
    ac0 = first_seq(obs.log, 'abort_call') or first_seq(obs.log, 'sigint_delivered')
    consistent = False
    for (kind_, killed) in origins[actual]:
      if kind_ != 'body' or killed is None or ac0 is None:
        consistent = True
        break
      # (judged by the phase record: a monitored phase, say, is still inside its wrapper after
      # the inner body returned and can legitimately be killed there)
      recs = [p for p in act.phases if p[0] == killed[0]]
      r = recs[killed[1] - 1] if len(recs) >= killed[1] else None
      if r is None or r[3] in ('KILLED', 'TIMEOUT', 'NORESULT'):
        consistent = True
        break
    if not consistent:
      probes['abort_after_body_end_needed_other_variant'] = 1
  if not consistent:
    close = _closest(actual, variants - ({actual} if actual in variants else set()) or variants)
    missing = [x for x in close if x not in actual]
    extra = [x for x in actual if x not in close]
    kind = 'other'
    if missing and all(roles.get(x[0]) == 'teardown' for x in missing) and not extra:
      kind = 'teardown_not_run'
    elif extra and all(roles.get(x[0]) == 'teardown' for x in extra) and not missing:
      kind = 'teardown_run_unexpectedly'
    elif len(actual) != len(set(actual)):
      kind = 'invoked_twice'
    viols.append(_v('not_a_single_abort_behaviour', kind=kind, aborted=bool(ab),
                    missing=[list(x) for x in missing][:6], extra=[list(x) for x in extra][:6],
                    actual=['%s#%d' % x for x in actual][:24]))
  # ordering: every (non-abandoned) body event precedes plug tearDown
  td0 = first_seq(obs.log, 'enter', lambda e: e[4] == 'tear_down_plugs')
  if td0 is not None:
    late = [e for e in obs.log if e[3] == 'body_start' and e[0] > td0]
    # tear_down_plugs also runs after a plug constructor failure (before any phase)
    if late and not any(e[3] == 'plug_ctor_raise' for e in obs.log):
      viols.append(_v('phase_body_after_plug_teardown', phases=[e[4] for e in late][:4]))


# ------------------------------------------------------------------------ C04
def c04(obs, act, viols, probes):
  spec = obs.spec
  ab = spec.get('abort')
  if not ab:
    return
  log = obs.log
  mode = ab['mode']
  roles = phase_roles(spec)
  # the aborts that actually reached TestExecutor.abort(), and when each call returned
  # (a nested SIGINT handler that raises KeyboardInterrupt cuts the outer one short)
  req = [e for e in log if e[3] == ('abort_call' if mode == 'thread' else 'sigint_delivered')]
  calls = [e for e in log if e[3] == 'enter' and e[4] == 'abort' and e[5] == 'test_executor.py']
  rets = []
  for c in calls:
    for e in log:
      if e[0] > c[0] and e[2] == c[2] and e[3] in ('abort_ret', 'sigint_handler_done'):
        rets.append(e)
        break
  if req and not calls and obs.failed is None:
    probes['abort_requested_but_executor_abort_never_called'] = probes.get(
        'abort_requested_but_executor_abort_never_called', 0) + 1
  sites = list(obs.sim.sigint_sites)
  site = sites[0][0] if sites else None
  # (i) liveness
  sphase = sigint_phase(obs) if mode == 'sigint' else None
  # a SIGINT handled while an earlier SIGINT handler was still running on the main thread
  nested = False
  depth = 0
  for e in log:
    if e[3] == 'sigint_delivered':
      if depth > 0:
        nested = True
      depth += 1
    elif e[3] == 'sigint_handler_done':
      depth -= 1
  if obs.failed in ('deadlock', 'hang'):
    selfdl = ':SELF-DEADLOCK' in (obs.failed_info or '').split('|')[0]
    # (a self-deadlocked main thread is detected as 'hang' when some abandoned body still polls)
    viols.append(_v('no_return_' + ('deadlock' if selfdl else obs.failed), mode=mode, sigint_site=site,
                    sigint_phase=sphase, nested_sigint=nested, detected_as=obs.failed,
                    self_deadlock_of_main=selfdl,
                    info=(obs.failed_info or '')[:300]))
    return
  if obs.failed is not None:
    return
  if not calls:
    probes['abort_never_delivered'] = probes.get('abort_never_delivered', 0) + 1
    if req and abort_effective(obs) and act.rec is not None and act.outcome == 'PASS':
      pass
    return
  probes['aborts_delivered'] = probes.get('aborts_delivered', 0) + len(calls)
  if len(calls) > 1:
    probes['second_abort_delivered'] = probes.get('second_abort_delivered', 0) + 1
  td_enter = first_seq(log, 'enter', lambda e: e[4] == '_execute_test_teardown')
  fin_enter = first_seq(log, 'enter', lambda e: e[4] == '_finalize')
  exec_call = first_seq(log, 'exec_call')
  r0 = rets[0][0] if rets else None
  if exec_call is not None and calls[0][0] < exec_call:
    return  # abort before execute() was even called: nothing to abort
  if not abort_effective(obs):
    # the test was not running yet (no executor / not registered for SIGINT):
    # a plain Ctrl-C before the run; nothing to abort
    probes['abort_before_test_was_running'] = probes.get('abort_before_test_was_running', 0) + 1
    return
  # classify the abort moment (probes)
  if td_enter is None or calls[0][0] < td_enter:
    probes['abort_before_final_teardown'] = probes.get('abort_before_final_teardown', 0) + 1
  elif fin_enter is None or calls[0][0] < fin_enter:
    probes['abort_during_plug_teardown_or_finalization'] = probes.get('abort_during_plug_teardown_or_finalization', 0) + 1
  else:
    probes['abort_after_finalization'] = probes.get('abort_after_finalization', 0) + 1
  started_before = set(e[4] for e in log if e[3] == 'body_start' and e[0] < calls[0][0])
  # (ii) nothing new starts once the abort call has returned
  if r0 is not None:
    late = [e for e in log if e[3] == 'body_start' and e[0] > r0 and roles.get(e[4]) == 'abortable']
    if late:
      e = late[0]
      # was anything running while the abort call executed?
      running = None
      for x in log:
        if x[0] > calls[0][0]:
          break
        if x[3] == 'body_start':
          running = x[4]
        elif x[3] in ('body_end', 'body_exc'):
          running = None
      reinv = e[5] > 1
      viols.append(_v('body_started_after_abort_returned', mode=mode, phase=e[4], invocation=e[5],
                      reinvocation=reinv, body_running_during_abort=running is not None,
                      n_late=len(late), is_test_start=e[4].endswith('_start'),
                      sigint_site=site))
  # (ix) the body running when the abort call returns was asked to terminate
  if r0 is not None and td_enter is not None and r0 < td_enter:
    open_b = {}
    asked = set()
    for e in log:
      if e[0] > r0:
        break
      if e[3] == 'body_start':
        open_b[e[2]] = e
      elif e[3] in ('body_end', 'body_exc'):
        open_b.pop(e[2], None)
      elif e[3] == 'async_exc_set':
        asked.add(e[4])
    for tid, e in open_b.items():
      if roles.get(e[4]) == 'abortable' and tid not in asked and e[0] > calls[0][0] - 10 ** 9:
        viols.append(_v('running_body_not_asked_to_terminate', phase=e[4], mode=mode,
                        body_started_after_abort_call=e[0] > calls[0][0]))
        break
  # (vi) second abort: no body at all starts after it returned
  if len(rets) > 1:
    late2 = [e for e in log if e[3] == 'body_start' and e[0] > rets[1][0]]
    if late2:
      viols.append(_v('body_started_after_second_abort', phase=late2[0][4], role=roles.get(late2[0][4]),
                      n_late=len(late2)))
  # (iv) outcome
  if act.rec is not None:
    if r0 is not None and td_enter is not None and r0 < td_enter and act.outcome != 'ABORTED':
      viols.append(_v('abort_before_final_teardown_but_not_ABORTED', outcome=act.outcome, mode=mode,
                      sigint_site=site))
    elif r0 is not None and fin_enter is not None and r0 < fin_enter and act.outcome == 'PASS':
      # the executor tests the abort flag once more after plug tearDown: an abort that had
      # *returned* while plugs were still being torn down must be seen by that test
      tdp_leave = first_seq(log, 'leave', lambda e: e[4] == 'tear_down_plugs' and (td_enter is None or e[0] > td_enter))
      viols.append(_v('PASS_although_abort_returned_before_finalization', mode=mode,
                      abort_returned_before_plug_teardown_finished=bool(tdp_leave is not None and r0 < tdp_leave)))
  # (v) callbacks exactly once each (also when KeyboardInterrupt is re-raised)
  ncb = len(spec['callbacks'])
  cbs = [e[4] for e in log if e[3] == 'callback']
  if cbs != list(range(ncb)):
    kbi_sites = [s_[0] for s_ in sites]
    viols.append(_v('callbacks_not_exactly_once', called=cbs, expected=ncb, mode=mode, exc=obs.exc,
                    sigint_site=site, sigint_phase=sphase, sigint_sites=kbi_sites[:3]))
  if obs.exc not in (None, 'KeyboardInterrupt'):
    viols.append(_v('execute_raised', exc=obs.exc, msg=obs.extra.get('exc_msg'), mode=mode, sigint_site=site))
  if obs.exc == 'KeyboardInterrupt' and mode == 'thread':
    viols.append(_v('execute_raised', exc=obs.exc, mode=mode))
  # (vii) never two live bodies of one test at once
  open_bodies = {}   # thread id -> (name, seq)
  killed = set()
  for e in log:
    k = e[3]
    if k == 'async_exc_set':
      killed.add(e[4])
    elif k == 'body_start':
      others = [(t, b) for t, b in open_bodies.items() if t not in killed]
      if others:
        viols.append(_v('two_phase_bodies_at_once', started=e[4], still_running=others[0][1][0]))
        break
      open_bodies[e[2]] = (e[4], e[0])
    elif k in ('body_end', 'body_exc'):
      open_bodies.pop(e[2], None)
  # (viii) nothing starts after the record was finalized
  if fin_enter is not None:
    late3 = [e for e in log if e[3] == 'body_start' and e[0] > fin_enter]
    if late3:
      viols.append(_v('body_started_after_finalization', phase=late3[0][4]))
  # (iii) single abort: teardown phases of entered groups still ran (membership, as C03)
  if ab['count'] == 1:
    before = len(viols)
    c03(obs, act, viols, {})
    for v in viols[before:]:
      v['details']['via'] = 'C04'
  # plug tearDown still ran for every constructed plug
  ctor = set(e[5] for e in log if e[3] == 'plug_ctor') - set(e[5] for e in log if e[3] == 'plug_ctor_raise')
  tds = [e[5] for e in log if e[3] == 'plug_td_start']
  for sserial in ctor:
    if tds.count(sserial) != 1:
      viols.append(_v('plug_teardown_count_after_abort', serial=sserial, count=tds.count(sserial)))


# ------------------------------------------------------------------------ C08
def c08(obs, act, viols, probes):
  log = obs.log
  spec = obs.spec
  if obs.failed in ('deadlock', 'hang'):
    if obs.sim.sigint_sites and ':SELF-DEADLOCK' in (obs.failed_info or '').split('|')[0]:
      # the main thread deadlocked against itself inside its SIGINT handler: that is C04's
      # (listed) finding, not a statement about plugs
      probes['sigint_self_deadlock_left_to_C04'] = 1
      return
    viols.append(_v('executor_stuck_' + obs.failed, info=(obs.failed_info or '')[:300],
                    plug_cfg=spec['plug_cfg']))
    return
  if obs.failed is not None:
    return
  ctors = [e for e in log if e[3] == 'plug_ctor']
  raised = set(e[5] for e in log if e[3] == 'plug_ctor_raise')
  by_cls = {}
  for e in ctors:
    by_cls.setdefault(e[4], []).append(e[5])
  for cls, serials in by_cls.items():
    if len(serials) > 1:
      viols.append(_v('plug_constructed_more_than_once', cls=cls, times=len(serials)))
  live = dict((e[4], e[5]) for e in ctors if e[5] not in raised)
  # same instance under the requested argument name
  want = {}
  allph = gen_mod.all_phase_specs(spec) + ([spec['test_start']] if isinstance(spec['test_start'], dict) else [])
  for ph in allph:
    want[ph['name']] = ph['plugs']
  for e in log:
    if e[3] == 'plug_args':
      name = e[4]
      probes['plug_seen'] = probes.get('plug_seen', 0) + 1
      for (arg, cls, serial) in e[5]:
        if live.get(cls) != serial:
          viols.append(_v('phase_got_other_instance', phase=name, arg=arg, cls=cls, got=serial,
                          constructed=live.get(cls)))
      if name in want and sorted(want[name]) != sorted(a for (a, _, _) in e[5]):
        viols.append(_v('phase_plug_arguments', phase=name, expected=sorted(want[name]),
                        got=sorted(a for (a, _, _) in e[5])))
      else:
        from workloads import bodies as _b
        pool = _b.PLUGS[spec.get('tag', '')]
        for (arg, cls, serial) in e[5]:
          if name in want and pool[want[name][arg]].LABEL != cls:
            viols.append(_v('phase_plug_class', phase=name, arg=arg, got=cls,
                            expected=pool[want[name][arg]].LABEL))
  # exactly one tearDown per constructed instance
  tds = [e for e in log if e[3] == 'plug_td_start']
  for cls, serial in live.items():
    n = sum(1 for e in tds if e[5] == serial)
    if n != 1:
      viols.append(_v('teardown_count', cls=cls, count=n,
                      ctor_failed_elsewhere=bool(raised), aborted=obs.aborted,
                      test_start_terminal=obs.model.test_start_terminal))
  for e in tds:
    if e[5] in raised:
      viols.append(_v('teardown_of_unconstructed', cls=e[4]))
  # after the last phase / test diagnoser, before the first callback
  if tds:
    t0 = tds[0][0]
    last_body = [e for e in log if e[3] in ('body_start', 'diag', 'test_diag') and e[0] > t0]
    if last_body and not raised:
      viols.append(_v('teardown_before_last_phase_or_diagnoser', later=[list(x[3:6]) for x in last_body][:3]))
    cb0 = first_seq(log, 'callback')
    tl = tds[-1][0]
    if cb0 is not None and tl > cb0:
      viols.append(_v('teardown_after_callbacks'))
  elif live:
    pass
  # ctor failure => ERROR and no further phase
  if raised:
    probes['ctor_raised'] = probes.get('ctor_raised', 0) + 1
    r0 = first_seq(log, 'plug_ctor_raise')
    late = [e for e in log if e[3] == 'body_start' and e[0] > r0]
    if late:
      viols.append(_v('phase_after_ctor_failure', phase=late[0][4]))
    if act.outcome not in ('ERROR',) and not obs.aborted:
      viols.append(_v('ctor_failure_outcome', outcome=act.outcome))
  # only test_start's plugs exist while test_start runs
  ts = spec['test_start']
  if isinstance(ts, dict):
    s0 = first_seq(log, 'body_start', lambda e: e[4] == ts['name'])
    if s0 is not None:
      pool = set()
      from workloads import bodies
      allowed = set(bodies.PLUGS[spec.get('tag', '')][pi].LABEL for pi in ts['plugs'].values())
      existing = set(e[4] for e in ctors if e[0] < s0)
      if not existing <= allowed:
        viols.append(_v('foreign_plug_exists_during_test_start', existing=sorted(existing), allowed=sorted(allowed)))
      probes['test_start_with_plugs'] = probes.get('test_start_with_plugs', 0) + (1 if allowed else 0)
  # a failing / abandoned tearDown does not change the outcome
  faulty = [c for c in spec['plug_cfg'] if c['teardown'] != 'ok']
  fired = [e for e in log if e[3] == 'plug_td_raise'] or any(c['teardown'] in ('hang', 'hang_u', 'slow') for c in spec['plug_cfg'])
  if faulty and tds:
    probes['teardown_fault_fired'] = probes.get('teardown_fault_fired', 0) + 1
    if exact_ok(obs) and act.outcome not in obs.model.outcomes:
      viols.append(_v('teardown_fault_changed_outcome', outcome=act.outcome, allowed=sorted(obs.model.outcomes)))
  if exact_ok(obs) and not faulty and act.rec is not None and act.outcome not in obs.model.outcomes:
    viols.append(_v('outcome_with_plugs_not_allowed', outcome=act.outcome, allowed=sorted(obs.model.outcomes)))


# ------------------------------------------------------------------------ C09
def record_complete(rec, spec):
  """Completeness predicate on a final TestRecord; returns list of problems."""
  bad = []
  if rec.outcome is None:
    bad.append('outcome unset')
  if rec.end_time_millis is None:
    bad.append('end time unset')
  elif rec.start_time_millis is None or rec.start_time_millis > rec.end_time_millis:
    bad.append('start>end')
  if rec.start_time_millis == 0:
    bad.append('start time 0')
  if not rec.dut_id:
    bad.append('dut_id unset')
  md = rec.metadata or {}
  if md.get('test_name') != 'wexec' + spec.get('tag', ''):
    bad.append('metadata test_name %r' % (md.get('test_name'),))
  if not isinstance(md.get('config'), dict) or 'station_id' not in md.get('config', {}):
    bad.append('metadata config snapshot missing')
  for p in rec.phases:
    if p.outcome is None:
      bad.append('phase %s outcome unset' % p.name)
    if p.result is None:
      bad.append('phase %s result unset' % p.name)
    if p.options is None:
      bad.append('phase %s options unset' % p.name)
    if p.end_time_millis is None or p.start_time_millis is None:
      bad.append('phase %s times unset' % p.name)
    else:
      if p.start_time_millis > p.end_time_millis:
        bad.append('phase %s start>end' % p.name)
      if rec.end_time_millis is not None and p.end_time_millis > rec.end_time_millis:
        bad.append('phase %s ends after test end (%d > %d)' % (p.name, p.end_time_millis, rec.end_time_millis))
  return bad


def c09(obs, act, viols, probes):
  log = obs.log
  spec = obs.spec
  if obs.failed is not None:
    if obs.sim.sigint_sites and any(p_ != 'waiting' for p_ in sigint_phases(obs)):
      return
    if obs.failed in ('deadlock', 'hang'):
      viols.append(_v('execute_never_returned', failed=obs.failed, info=(obs.failed_info or '')[:300],
                      aborted=obs.aborted,
                      sigint_site=(obs.sim.sigint_sites[0][0] if obs.sim.sigint_sites else None)))
    return
  ncb = len(spec['callbacks'])
  site = obs.sim.sigint_sites[0][0] if obs.sim.sigint_sites else None
  if obs.exc not in (None, 'KeyboardInterrupt'):
    viols.append(_v('execute_raised', exc=obs.exc, msg=obs.extra.get('exc_msg')))
    return
  if obs.sim.sigint_sites and any(p_ != 'waiting' for p_ in sigint_phases(obs)):
    # a SIGINT handled while the main thread was not waiting for the executor:
    # those positions are quantified (and their findings owned) by C04
    probes['sigint_outside_wait_left_to_C04'] = probes.get('sigint_outside_wait_left_to_C04', 0) + 1
    return
  if obs.exc == 'KeyboardInterrupt' and obs.aborted and not abort_effective(obs) and not obs.sink:
    probes['ctrl_c_before_test_was_running'] = probes.get('ctrl_c_before_test_was_running', 0) + 1
    return
  # an execute() overlapping the running one must be refused and disturb nothing
  oc = first_seq(log, 'overlap_call')
  if oc is not None:
    ex_starts = [e for e in log if e[3] == 'thread_start' and e[5] == 'TestExecutorThread']
    # the first execute() is certainly still running until it closes its executor
    closing = first_seq(log, 'enter', lambda e: e[4] == 'close' and e[5] == 'test_executor.py')
    oe = [e for e in log if e[3] in ('overlap_exc', 'overlap_ret')]
    if len(ex_starts) > 1 and (closing is None or ex_starts[1][0] < closing):
      viols.append(_v('overlapping_execute_accepted', result=(list(oe[0][3:5]) if oe else None)))
      return
    if len(ex_starts) > 1 or (oe and oe[0][3] == 'overlap_ret'):
      probes['second_execute_after_first_finished'] = probes.get('second_execute_after_first_finished', 0) + 1
      return  # a legitimate second run from another thread; nothing to compare against
    if oe and oe[0][4] == 'InvalidTestStateError':
      probes['overlapping_execute_refused'] = probes.get('overlapping_execute_refused', 0) + 1
    elif oe:
      viols.append(_v('overlapping_execute_raised_other', exc=oe[0][4]))
  runs = obs.extra.get('runs') or []
  log_to = runs[0]['log_to'] if runs else len(log)
  cbs = [e[4] for e in log[:log_to] if e[3] == 'callback']
  if cbs != list(range(ncb)):
    viols.append(_v('callbacks_not_once_in_order', called=cbs, expected=ncb, exc=obs.exc, sigint_site=site,
                    raising=[i for i, c in enumerate(spec['callbacks']) if c == 'raise']))
  if any(c == 'raise' for c in spec['callbacks']):
    probes['raising_callback'] = probes.get('raising_callback', 0) + 1
  sink_to = runs[0]['sink_to'] if runs else len(obs.sink)
  recs = [r for (_, r) in obs.sink[:sink_to]]
  if recs and any(r is not recs[0] for r in recs):
    viols.append(_v('callbacks_got_different_records'))
  # consecutive executions of the same Test object
  prev_log, prev_sink = log_to, sink_to
  for j, r in enumerate(runs[1:], 1):
    probes['consecutive_executes'] = probes.get('consecutive_executes', 0) + 1
    if r['exc'] is not None:
      viols.append(_v('re_execute_raised', run=j, exc=r['exc'], msg=r.get('exc_msg')))
      break
    cbs_j = [e[4] for e in log[prev_log:r['log_to']] if e[3] == 'callback']
    if cbs_j != list(range(ncb)):
      viols.append(_v('callbacks_not_once_in_order', run=j, called=cbs_j, expected=ncb))
    recs_j = [x for (_, x) in obs.sink[prev_sink:r['sink_to']]]
    if recs_j:
      if any(x is not recs_j[0] for x in recs_j) or (recs and recs_j[0] is recs[0]):
        viols.append(_v('callbacks_got_different_records', run=j))
      badj = record_complete(recs_j[0], spec)
      if badj:
        viols.append(_v('record_incomplete', run=j, problems=badj[:5]))
      if (r['ret'] is True) != (recs_j[0].outcome is not None and recs_j[0].outcome.name == 'PASS'):
        viols.append(_v('return_value_vs_outcome', run=j, ret=r['ret']))
    pj = r['post']
    if not pj.get('executor_none') or pj.get('instances') or pj.get('record_handlers'):
      viols.append(_v('global_registration_left_behind', run=j, post=pj))
    prev_log, prev_sink = r['log_to'], r['sink_to']
  if recs:
    bad = record_complete(recs[0], spec)
    if bad:
      viols.append(_v('record_incomplete', problems=bad[:5], aborted=obs.aborted, outcome=act.outcome,
                      sigint_site=site))
    if obs.exc is None and (obs.ret is True) != (act.outcome == 'PASS'):
      viols.append(_v('return_value_vs_outcome', ret=obs.ret, outcome=act.outcome))
    probes['outcome_' + str(act.outcome)] = probes.get('outcome_' + str(act.outcome), 0) + 1
  post = obs.post
  if post:
    if not post.get('executor_none'):
      viols.append(_v('executor_left_behind', exc=obs.exc, sigint_site=site))
    if post.get('state_none') is not True:
      viols.append(_v('state_not_none_after_execute', state=str(post.get('state_none')), exc=obs.exc,
                      sigint_site=site))
    if post.get('instances'):
      viols.append(_v('still_registered_for_sigint', exc=obs.exc, sigint_site=site))
    if post.get('record_handlers'):
      viols.append(_v('record_handler_left_behind', n=post.get('record_handlers'), exc=obs.exc,
                      sigint_site=site))


# ------------------------------------------------------------------------ C12
def c12(obs, act, viols, probes):
  log = obs.log
  spec = obs.spec
  if obs.failed in ('deadlock', 'hang'):
    viols.append(_v('executor_did_not_proceed_' + obs.failed, info=(obs.failed_info or '')[:300]))
    return
  if obs.failed is not None or act.rec is None or obs.aborted:
    return
  specs = dict((ph['name'], ph) for ph in gen_mod.all_phase_specs(spec))
  if isinstance(spec['test_start'], dict):
    specs[spec['test_start']['name']] = spec['test_start']
  # per invocation: start time, end time
  starts = {}
  ends = {}
  for e in log:
    if e[3] == 'body_start':
      starts[(e[4], e[5])] = e
    elif e[3] in ('body_end', 'body_exc'):
      ends.setdefault((e[4], e[5]), e)
  # records per phase in order <-> invocations in order
  recs_by = {}
  for p in act.rec.phases:
    recs_by.setdefault(p.name, []).append(p)
  for name, ph in specs.items():
    T = ph['opts']['timeout_s'] if ph['opts']['timeout_s'] is not None else 180.0
    recs = [r for r in recs_by.get(name, []) if result_kind(r.result) != 'SKIP' or True]
    invs = sorted(k for k in starts if k[0] == name)
    # records written by skip_phase (subtest failed) have no invocation: align only when counts agree
    if len(invs) != len(recs):
      continue
    for (k, r) in zip(invs, recs):
      t0 = starts[k][1]
      te = ends[k][1] if k in ends else None
      kind = result_kind(r.result)
      beh = ph['beh'][min(k[1] - 1, len(ph['beh']) - 1)]
      if te is not None and te < t0 + T - 1e-9:
        probes['body_ended_before_deadline'] = probes.get('body_ended_before_deadline', 0) + 1
        if kind == 'TIMEOUT':
          viols.append(_v('false_timeout', phase=name, invocation=k[1], duration=round(te - t0, 4), timeout_s=T))
        else:
          want = None
          if beh['kind'] == 'ret':
            want = 'CONTINUE' if beh['val'] == 'NONE' else beh['val']
          elif beh['kind'] == 'raise':
            # (a SystemExit ends the phase thread without an outcome: reported as killed)
            want = 'KILLED' if beh['exc'] == 'SystemExit' else 'EXC:' + beh['exc']
          if want is not None and kind != want and not (
              kind.startswith('EXC:') and (want == 'FAIL_SUBTEST' or beh['kind'] == 'junk')) and not (
              kind == 'STOP' and ph['opts']['stop_on_measurement_fail']) and not (
              kind == 'EXC:OtherExc'):
            viols.append(_v('own_result_not_kept', phase=name, invocation=k[1], got=kind, want=want))
      elif te is None or te >= t0 + T + 3.0 - 1e-9:
        probes['body_running_past_deadline'] = probes.get('body_running_past_deadline', 0) + 1
        if kind != 'TIMEOUT':
          viols.append(_v('running_past_deadline_not_timeout', phase=name, invocation=k[1], got=kind,
                          timeout_s=T, ended=None if te is None else round(te - t0, 4)))
        else:
          # the executor proceeds by deadline + join interval
          # (the first sign that the executor has *moved on*: the next node's run_if / body, a test
          # diagnoser, the final teardown, plug tearDown or a callback - not the bookkeeping of the
          # timed-out phase itself, which happens before the executor is free to go on)
          nxt = None
          for e in log:
            if e[0] > starts[k][0] and e[2] != starts[k][2] and (
                e[3] in ('body_start', 'plug_td_start', 'callback', 'test_diag', 'run_if') or
                (e[3] == 'enter' and e[4] in ('_execute_test_teardown', 'tear_down_plugs', '_finalize'))):
              nxt = e
              break
          if nxt is not None and nxt[1] > t0 + T + 3.0 + 1e-6 and not spec.get('slow_log_s'):
            viols.append(_v('executor_late_after_timeout', phase=name, proceeded_after=round(nxt[1] - t0, 4),
                            timeout_s=T))
      else:
        probes['ended_in_poll_window'] = probes.get('ended_in_poll_window', 0) + 1
  # first terminal timeout => TIMEOUT outcome, teardown and plug tearDown executed
  if exact_ok(obs):
    if act.outcome not in obs.model.outcomes:
      viols.append(_v('outcome_after_timeout', outcome=act.outcome, allowed=sorted(obs.model.outcomes)))
    if tuple(act.invocations) != tuple(obs.model.invocations):
      viols.append(_v('invocations_after_timeout', actual=['%s#%d' % x for x in act.invocations][:20],
                      expected=['%s#%d' % x for x in obs.model.invocations][:20]))
  # attribution: nothing an abandoned body does lands in another phase's record
  for p in act.rec.phases:
    for an in p.attachments:
      owner = an.split('_')[1] if an.startswith(('att_', 'late_')) else None
      if owner is not None and owner != p.name.replace('_start', '') and owner != p.name:
        viols.append(_v('attachment_in_foreign_phase_record', attachment=an, record=p.name))
  for l in act.rec.log_records:
    msg = l.message
    if 'log ' in msg and ' inv' in msg and '.phase.' in l.logger_name:
      who = msg.split('log ')[1].split(' ')[0]
      lname = l.logger_name.split('.phase.')[1].split('.')[0]
      if who != lname:
        viols.append(_v('log_attributed_to_other_phase', message=msg[:60], logger=l.logger_name[-40:]))
  if any(e[3] == 'late_action' for e in log):
    probes['late_action_by_abandoned_body'] = probes.get('late_action_by_abandoned_body', 0) + 1
  # monitor threads: every sample in a phase record was taken by that invocation's own monitor
  # thread (the sampled value is the monitor thread's serial number)
  seen_serial = {}
  for i, p in enumerate(act.rec.phases):
    for mn, meas in (p.measurements or {}).items():
      if not mn.startswith('mon_') or not meas.measured_value.is_value_set:
        continue
      probes['monitored_phase'] = probes.get('monitored_phase', 0) + 1
      serials = sorted(set(v for (_, v) in meas.measured_value.value))
      if len(serials) > 1:
        viols.append(_v('monitor_samples_of_another_invocation', phase=p.name, serials=serials))
      for sr in serials:
        if sr in seen_serial and seen_serial[sr] != i:
          viols.append(_v('monitor_samples_of_another_invocation', phase=p.name, serials=serials,
                          also_in_record=seen_serial[sr]))
        seen_serial[sr] = i
