"""Runs one W-exec program under the simulator and returns an Observation."""
import logging
import os
import threading

from simkit import core
from simkit import env
from wx import build
from wx import gen as gen_mod
from wx import model as model_mod


class Obs(object):
  """Everything the oracles may look at."""

  def __init__(self):
    self.spec = None
    self.model = None
    self.log = []
    self.sink = []          # (callback idx, record) in call order
    self.ret = None         # execute() return value
    self.exc = None         # exception type name raised by execute()
    self.failed = None      # simulator abnormal end
    self.failed_info = None
    self.post = {}          # state of the Test object after execute()
    self.sim = None
    self.knobs = None
    self.extra = {}
    self.faults = {}
    self.aborted = False


def draw_knobs(tape, max_time):
  return core.Knobs(
      p_sync=tape.pick([0, 50, 150, 400], 'p_sync'),
      gap_mean=tape.pick([0, 0, 400, 120, 40, 15], 'gap'),
      hot_span=tape.pick([0, 0, 6, 30], 'hot'),
      max_steps=3000000,
      max_time=max_time,
      async_delay_max=0)


def _count_faults(spec, faults):
  for ph in gen_mod.all_phase_specs(spec) + ([spec['test_start']] if isinstance(spec['test_start'], dict) else []):
    for b in ph['beh']:
      if b['kind'] == 'raise':
        faults['phase_raises'] = faults.get('phase_raises', 0) + 1
      elif b['kind'] == 'junk':
        faults['phase_returns_junk'] = faults.get('phase_returns_junk', 0) + 1
      if b.get('hang') == 'k':
        faults['phase_hangs_killable'] = faults.get('phase_hangs_killable', 0) + 1
      if b.get('hang') == 'u':
        faults['phase_hangs_unkillable'] = faults.get('phase_hangs_unkillable', 0) + 1
    if ph['opts']['run_if'] and 'raise' in ph['opts']['run_if']:
      faults['run_if_raises'] = faults.get('run_if_raises', 0) + 1
    for d in ph['diags']:
      if 'raise' in d['outs']:
        faults['diagnoser_raises'] = faults.get('diagnoser_raises', 0) + 1
  for d in spec['test_diags']:
    if d['outs'] == 'raise':
      faults['test_diagnoser_raises'] = faults.get('test_diagnoser_raises', 0) + 1
  for c in spec['plug_cfg']:
    if c['ctor'] == 'raise':
      faults['plug_ctor_raises(configured)'] = faults.get('plug_ctor_raises(configured)', 0) + 1
    if c['teardown'] != 'ok':
      faults['plug_teardown_' + c['teardown'] + '(configured)'] = faults.get('plug_teardown_' + c['teardown'] + '(configured)', 0) + 1
  for c in spec['callbacks']:
    if c == 'raise':
      faults['callback_raises'] = faults.get('callback_raises', 0) + 1


def run_spec(tape, spec, extra_threads=None, executes=1, style=0):
  """Simulates Test.execute() of the program.  Returns Obs."""
  from openhtf.core import test_descriptor
  from openhtf.util import configuration
  from openhtf.util import logs
  from workloads import bodies
  CONF = configuration.CONF

  obs = Obs()
  obs.spec = spec
  env.hygiene()
  model = model_mod.Model(spec).run()
  obs.model = model
  ab = spec.get('abort')
  max_time = model.time_bound + 60.0
  if ab:
    max_time += 10.0 * ab['count']
  if any(c['teardown'] in ('hang', 'hang_u', 'slow') for c in spec['plug_cfg']):
    max_time += 30.0
  knobs = draw_knobs(tape, max_time)
  obs.knobs = knobs
  _count_faults(spec, obs.faults)
  # abort trigger (drawn before the run so that the tape prefix is the program)
  trig = None
  if ab:
    n_est = 3 * len(model.invocations) + 10
    how = tape.weighted([(5, 'event'), (2, 'step')], 'trig_how')
    if how == 'event':
      e = tape.draw(n_est, 'trig_event')
      cls = tape.weighted([(3, 0), (3, 5), (3, 40), (2, 300), (1, 2000)], 'trig_cls')
      d = tape.draw(cls + 1, 'trig_off')
      trig = ('event', e, d)
    else:
      cls = tape.weighted([(2, 60), (2, 400), (2, 3000), (1, 12000)], 'trig_cls')
      trig = ('step', tape.draw(cls + 1, 'trig_step'))
    gap2 = tape.pick([0, 0.01, 0.3, 1.0, 2.5], 'abort_gap')
  sim = core.Sim(tape, env.TRACE_PREFIXES, knobs)
  sim.sigint_info = lambda: len(test_descriptor.Test.TEST_INSTANCES)
  sim.watch_calls = frozenset(['_execute_test_teardown', '_finalize', 'tear_down_plugs', 'finalize', 'abort', 'wait', 'close'])
  sim.watch_returns = frozenset(['tear_down_plugs'])
  obs.sim = sim
  ctx = bodies.Ctx(sim, spec.get('tag', ''))
  bodies.CURRENT[ctx.tag] = ctx
  test, start, cbs = build.build_test(ctx, spec, obs.sink, style)
  conf = build.conf_values(spec)
  if conf:
    CONF.load(_override=True, **conf)
  gate = core.Gate()
  xkw = {}
  saved_combine = None
  if spec.get('profile'):
    # phase threads run under cProfile; writing the combined statistics (real temp files) is
    # output plumbing outside the properties and is skipped
    from openhtf.core import test_executor as _te
    saved_combine = _te.combine_profile_stats
    def _combine_without_files(stats, filename):
      for st_ in stats:
        st_.stats   # (what pstats would read: a None among the statistics fails as in the real function)
    _te.combine_profile_stats = _combine_without_files
    xkw['profile_filename'] = os.devnull
    obs.faults['profiling_enabled'] = 1
  wout = {}
  ctx.wout = wout
  slow = None
  if spec.get('slow_log_s'):
    slow = bodies.SlowHandler(spec['slow_log_s'])
    logging.getLogger(logs.LOGGER_PREFIX).addHandler(slow)
    model.ambiguous = True   # scripted durations no longer decide timeouts exactly
    knobs.max_time += 400.0
    obs.faults['slow_log_handler'] = 1
  try:
    with env.NoGC(10):
      sim.begin()
      try:
        threads = []
        if ab:
          obs.aborted = True
          if ab['mode'] == 'thread':
            th = threading.Thread(target=bodies.operator, args=(ctx, test, gate, ab['count'], gap2),
                                  name='operator')
            th.daemon = True
            th.start()
            threads.append(th)

            def fire(frame):
              sim.event('trigger')
              gate.open()
          else:
            state = {'n': 0}

            def fire(frame):
              sim.event('trigger')
              state['n'] += 1
              sim.post_sigint()
              if state['n'] < ab['count']:
                # the second SIGINT after a number of further line steps
                sim.at_step(sim.steps + 1 + int(gap2 * 2000), fire)
          if trig[0] == 'step':
            sim.at_step(trig[1] + 1, fire)
          else:
            cnt = {'n': 0, 'armed': False}

            def on_event(rec):
              if cnt['armed'] or rec[3] in ('trigger',):
                return
              # (thread_start: aborts that land between the creation of a phase thread and its body)
              if rec[3].startswith(('body_', 'plug_', 'callback', 'test_diag', 'diag', 'run_if', 'exec_', 'thread_start')):
                if cnt['n'] == trig[1]:
                  cnt['armed'] = True
                  sim.at_step(sim.steps + 1 + trig[2], fire)
                cnt['n'] += 1

            sim.on_event = on_event
        for w in range(spec.get('watchers', 0)):
          th = threading.Thread(target=bodies.watcher, args=(ctx, test, w, wout), name='watcher%d' % w)
          th.daemon = True
          th.start()
          threads.append(('w', th))
        if extra_threads:
          extra_threads(sim, ctx, test, threads)
        if spec.get('prior_run'):
          # an earlier, undisturbed execution of the same Test object; what is observed (and
          # aborted) is the next one
          saved_on_event, sim.on_event = sim.on_event, None
          saved_trig = dict(sim.triggers)
          sim.triggers = {}
          sim.next_trigger = None
          try:
            test.execute(test_start=start, **xkw)
          except core.SimAbort:
            raise
          except BaseException:  # pylint: disable=broad-except
            pass
          ctx.inv.clear()
          ctx.runif.clear()
          ctx.diag_calls.clear()
          obs.extra['log_from'] = len(sim.log)
          obs.extra['sink_from'] = len(obs.sink)
          obs.extra['steps_from'] = sim.steps
          sim.on_event = saved_on_event
          # re-arm step triggers relative to the start of the observed run
          for st_ in sorted(saved_trig):
            for fn_ in saved_trig[st_]:
              sim.at_step(sim.steps + st_, fn_)
          obs.faults['earlier_run_of_same_test'] = 1
        sim.event('exec_call')
        try:
          obs.ret = test.execute(test_start=start, **xkw)
          sim.event('exec_ret', obs.ret)
        except KeyboardInterrupt:
          obs.exc = 'KeyboardInterrupt'
          sim.event('exec_exc', 'KeyboardInterrupt')
        except core.SimAbort:
          raise
        except BaseException as e:  # pylint: disable=broad-except
          obs.exc = type(e).__name__
          obs.extra['exc_msg'] = str(e)[:200]
          sim.event('exec_exc', type(e).__name__)
        wout['execute_done'] = True
        og = getattr(ctx, 'overlap_gate', None)
        if og is not None and not og.opened:
          ctx.overlap_cancel = True
          og.open(prefer=False)
        # the run is over: disarm pending aborts so that they cannot land in harness code
        sim.triggers.clear()
        sim.next_trigger = None
        sim.sigint_pending = 0
        sim.on_event = None
        # state of the Test object right after execute()
        obs.post = {
            'executor_none': test._executor is None,  # pylint: disable=protected-access
            'state_none': None,
            'instances': len(test_descriptor.Test.TEST_INSTANCES),
            'record_handlers': sum(1 for h in logging.getLogger(logs.LOGGER_PREFIX).handlers
                                   if isinstance(h, logs.RecordHandler)),
        }
        try:
          obs.post['state_none'] = test.state is None
        except BaseException as e:  # pylint: disable=broad-except
          obs.post['state_none'] = 'exc:' + type(e).__name__
        # let watcher threads finish (they must, once the test completed)
        for item in threads:
          if isinstance(item, tuple):
            item[1].join()
        # further consecutive executions of the same Test object (same scripted behaviours)
        obs.extra['runs'] = [{'ret': obs.ret, 'exc': obs.exc, 'sink_to': len(obs.sink),
                              'log_to': len(sim.log), 'post': dict(obs.post)}]
        for j in range(1, executes):
          if obs.exc is not None or not obs.post.get('executor_none'):
            break
          ctx.inv.clear()
          ctx.runif.clear()
          ctx.diag_calls.clear()
          sim.event('exec_call', j)
          r = {'ret': None, 'exc': None}
          try:
            # (later_start_none: the later executions are started without the trigger phase)
            r['ret'] = test.execute(test_start=None if spec.get('later_start_none') else start, **xkw)
            sim.event('exec_ret', r['ret'])
          except core.SimAbort:
            raise
          except BaseException as e:  # pylint: disable=broad-except
            r['exc'] = type(e).__name__
            r['exc_msg'] = str(e)[:200]
            sim.event('exec_exc', type(e).__name__)
          r['sink_to'] = len(obs.sink)
          r['log_to'] = len(sim.log)
          r['post'] = {
              'executor_none': test._executor is None,  # pylint: disable=protected-access
              'instances': len(test_descriptor.Test.TEST_INSTANCES),
              'record_handlers': sum(1 for h in logging.getLogger(logs.LOGGER_PREFIX).handlers
                                     if isinstance(h, logs.RecordHandler)),
          }
          obs.extra['runs'].append(r)
        sim.event('main_done')
      except core.SimAbort as e:
        obs.failed = sim.failed or 'abort'
        obs.failed_info = sim.failed_info or str(e)
      finally:
        obs.extra['watch'] = wout
        obs.failed = obs.failed or sim.failed
        obs.failed_info = obs.failed_info or sim.failed_info
        sim.end()
  finally:
    if saved_combine is not None:
      _te.combine_profile_stats = saved_combine
    if slow is not None:
      logging.getLogger(logs.LOGGER_PREFIX).removeHandler(slow)
    if conf:
      CONF.reset()
    bodies.CURRENT.pop(ctx.tag, None)
  obs.log = sim.log[obs.extra.get('log_from', 0):]
  if obs.extra.get('sink_from'):
    del obs.sink[:obs.extra['sink_from']]
  obs.extra['test'] = test
  return obs


def result_from(obs, viols, probes, nontrivial, sample_extra=None):
  sim = obs.sim
  spec = obs.spec
  abnormal = None
  if obs.failed in ('steplimit', 'unwind', 'abort'):
    abnormal = '%s: %s' % (obs.failed, obs.failed_info)
  sample = {
      'shape': gen_mod.shape_of(spec),
      'phases': len(gen_mod.all_phase_specs(spec)),
      'settings': {k: v for k, v in spec['settings'].items() if v not in (False, 0, 2)},
      'test_start': 'phase' if isinstance(spec['test_start'], dict) else spec['test_start'],
      'abort': spec.get('abort'),
      'knobs': {'p_sync': obs.knobs.p_sync, 'gap_mean': obs.knobs.gap_mean, 'hot_span': obs.knobs.hot_span,
                'async_delay_max': obs.knobs.async_delay_max},
      'outcome': obs.sink[0][1].outcome.name if obs.sink and obs.sink[0][1].outcome else None,
      'model_outcomes': sorted(obs.model.outcomes),
      'invocations': ['%s#%d' % x for x in obs.model.invocations][:20],
      'events': [list(e[2:]) for e in obs.log if e[3].startswith(('body_', 'abort_', 'plug_td', 'exec_', 'sigint'))][:30],
  }
  if sample_extra:
    sample.update(sample_extra)
  return {
      'violations': viols, 'digest': sim.digest(), 'sched': sim.sched_digest(),
      'nontrivial': nontrivial, 'faults': obs.faults, 'probes': probes,
      'steps': sim.steps, 'switches': sim.switches, 'preempts': sim.preemptions,
      'sim_s': sim.now - core.T0, 'sample': sample, 'abnormal': abnormal,
      'poison': bool(obs.failed) or obs.exc == 'KeyboardInterrupt' or not obs.post.get('executor_none', False)
                or bool(obs.post.get('record_handlers')) or bool(obs.post.get('instances')),
  }
