"""Untraced helpers for workload classes."""


class NameHashMeta(type):
  """Classes hash by name: TestDescriptor.plug_types is a set of classes."""

  def __hash__(cls):
    # independent of PYTHONHASHSEED
    h = 7
    for ch in cls.__name__:
      h = (h * 31 + ord(ch)) & 0xFFFFFFF
    return h

  def __eq__(cls, other):
    return cls is other

  def __ne__(cls, other):
    return cls is not other


