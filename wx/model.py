"""M_exec / M_phase: an independent sequential reference interpreter of W-exec specs.

Written from docs/event_sequence.md and the property statements (DESIGN.md
Appendix A); imports nothing from openhtf.  Abort-free runs only: with aborts
the oracles fall back to invariants.
"""

TERMINAL = 'TERMINAL'
CONTINUE = 'CONTINUE'

DEFAULT_TIMEOUT = 180.0
JOIN_INTERVAL = 3.0


class SubRec(object):

  def __init__(self, name, failed):
    self.name = name
    self.failed = failed
    self.outcome = 'FAIL' if failed else 'PASS'


def is_terminal_result(res):
  return res == 'STOP' or res == 'TIMEOUT' or res.startswith('EXC:')


class Model(object):

  def __init__(self, spec):
    self.spec = spec
    self.s = spec['settings']
    self.inv = {}
    self.runif = {}
    self.diag_calls = {}
    self.records = []      # (name, outcome, subtest_name, result)
    self.subtests = []     # (name, outcome)
    self.branches = []     # (name, taken)
    self.ckpts = []        # (name, result)
    self.invocations = []  # (name, inv)
    self.diag_events = []  # (diag, phase, n)
    self.test_diag_events = []
    self.store = set()
    self.failure_diag = False
    self.first_terminal = None
    self.ambiguous = False     # a duration fell into [deadline, deadline+interval)
    self.time_bound = 10.0
    self.nodes_run = 0
    self.plug_init_failed = False
    self.test_start_terminal = False
    self.abandoned = []        # (name, inv) bodies abandoned by a timeout
    self.groups = []           # per group: dict(name, entered, teardown_phases, ...)
    self.probe = {}
    self._td_ctx = False
    self.alt_outcomes = set()
    # single-abort semantics (DESIGN.md, C03/C04): the abort takes effect at
    # one of the enumerated points of the execution
    self.abort_at = None       # index of the point at which the abort lands
    self.points = 0            # points passed so far
    self.aborted = False
    self.abort_kind = None

  def count(self, k):
    self.probe[k] = self.probe.get(k, 0) + 1

  def _point(self, kind):
    """An abort point.  Returns True when the abort lands exactly here."""
    k = self.points
    self.points += 1
    if self.abort_at is not None and k == self.abort_at and not self.aborted:
      self.aborted = True
      self.abort_kind = kind
      return True
    return False

  # ------------------------------------------------------------------ phases
  def _meas_pass(self, ph, beh):
    vals = dict((m[0], m[1]) for m in beh.get('meas', []))
    ok = True
    for m in ph['meas']:
      if m['name'] not in vals:
        if not self.s['allow_unset']:
          ok = False
        continue
      v = vals[m['name']]
      val = m['validator']
      if val is None:
        continue
      if val[0] == 'in_range':
        if not (val[1] <= v <= val[2]):
          ok = False
      elif val[0] == 'equals':
        if v != val[1]:
          ok = False
    return ok

  def _once(self, ph, S, is_last):
    """One loop iteration of a phase.  Returns (final_result, wrote_record)."""
    name = ph['name']
    o = ph['opts']
    if o['run_if'] is not None:
      n = self.runif[name] = self.runif.get(name, 0) + 1
      v = o['run_if'][min(n - 1, len(o['run_if']) - 1)]
      if v == 'raise':
        self.count('run_if_raise')
        return 'EXC:OtherExc', False
      if not v:
        self.count('run_if_false')
        return 'SKIP', False
    if not self._td_ctx and self._point('prebody'):
      # killed before the body started: a record, no invocation
      self.records.append((name, 'ERROR', S.name if S is not None else None, 'KILLED'))
      return 'EXC:KILLED', True
    inv = self.inv[name] = self.inv.get(name, 0) + 1
    self.invocations.append((name, inv))
    if not self._td_ctx and self._point('body'):
      self.abort_killed = (name, inv)
      self.records.append((name, 'ERROR', S.name if S is not None else None, 'KILLED'))
      return 'EXC:KILLED', True
    beh = ph['beh'][min(inv - 1, len(ph['beh']) - 1)]
    T = o['timeout_s'] if o['timeout_s'] is not None else DEFAULT_TIMEOUT
    hang = beh.get('hang')
    dur = beh.get('dur', 0) or 0
    if hang == 'k':
      d = float('inf')
    else:
      d = dur
    if hang == 'u' and not dur:
      d = 30.0
    timed_out = False
    if d < T:
      self.time_bound += d
    elif d >= T + JOIN_INTERVAL:
      timed_out = True
      self.time_bound += T + JOIN_INTERVAL + (dur if hang == 'u' else 0)
    else:
      self.ambiguous = True
      timed_out = d >= T + JOIN_INTERVAL  # (False) best guess; comparison is skipped
      self.time_bound += T + JOIN_INTERVAL
    if timed_out:
      res = 'TIMEOUT'
      self.abandoned.append((name, inv))
      self.count('timeout')
    elif beh['kind'] == 'raise' and beh['exc'] == 'SystemExit':
      # a BaseException that is not an Exception ends the phase thread without an outcome: the
      # executor reports the phase as killed (terminal, ERROR, diagnosers skipped)
      self.count('phase_thread_ended_without_outcome')
      self.records.append((name, 'ERROR', S.name if S is not None else None, 'KILLED'))
      return 'EXC:KILLED', True
    elif beh['kind'] == 'raise':
      res = 'EXC:' + beh['exc']
    elif beh['kind'] == 'junk':
      res = 'EXC:InvalidPhaseResultError'
    else:
      res = beh['val']
      if res == 'NONE':
        res = 'CONTINUE'
      if res == 'FAIL_SUBTEST' and S is None:
        res = 'EXC:InvalidPhaseResultError'
    hit_limit = False
    override = None
    if res == 'REPEAT' and is_last:
      hit_limit = True
      override = 'STOP'
      self.count('repeat_limit_hit')
    # outcome before diagnosers
    if is_terminal_result(res) or hit_limit:
      outcome = 'ERROR'
    elif res in ('REPEAT', 'SKIP'):
      outcome = 'SKIP'
    elif res in ('FAIL_SUBTEST', 'FAIL_AND_CONTINUE'):
      outcome = 'FAIL'
    elif not self._meas_pass(ph, beh):
      outcome = 'FAIL'
      if o['stop_on_measurement_fail']:
        res = 'STOP'
        self.count('stop_on_measurement_fail')
    else:
      outcome = 'PASS'
    # diagnosers: every one of them, unless the invocation was skipped/repeated
    inv_failure_diag = False
    if res not in ('REPEAT', 'SKIP'):
      for d_ in ph['diags']:
        n = self.diag_calls[d_['name']] = self.diag_calls.get(d_['name'], 0) + 1
        self.diag_events.append((d_['name'], name, n))
        out = d_['outs'][min(n - 1, len(d_['outs']) - 1)]
        if out == 'raise':
          self.count('diag_raise')
          if not is_terminal_result(res):
            res = 'EXC:OtherExc'
          continue
        for (r, f) in out:
          f = bool(f) or d_.get('always_fail', False)
          self.store.add(r)
          if f:
            inv_failure_diag = True
            self.failure_diag = True
    if outcome != 'ERROR':
      if is_terminal_result(res):
        outcome = 'ERROR'
      elif outcome == 'PASS' and inv_failure_diag:
        outcome = 'FAIL'
    self.records.append((name, outcome, S.name if S is not None else None, res))
    return (override or res), True

  def run_phase(self, ph, S, td):
    name = ph['name']
    if not td and S is not None and S.failed:
      self.records.append((name, 'SKIP', S.name, 'SKIP'))
      self.count('skip_after_subtest_fail')
      return CONTINUE
    o = ph['opts']
    L = o['repeat_limit'] or 3
    i = 1
    n_before = len(self.records)
    self._td_ctx = td
    while True:
      is_last = i >= L
      if i > 1 and not td and self._point('iter'):
        # the repeat loop notices the stop request: 'timeout' without invoking
        res, wrote = 'TIMEOUT', False
        break
      self._td_ctx = td
      res, wrote = self._once(ph, S, is_last)
      rep = False
      if res == 'TIMEOUT' and o['repeat_on_timeout']:
        rep = True
      elif res == 'REPEAT':
        rep = True
      elif is_terminal_result(res):
        rep = False   # a terminal result is never overwritten by a repetition
      elif not wrote:
        rep = False   # a false run_if ends the phase: never invoked, no record
        if (o['force_repeat'] or o['repeat_on_measurement_fail']):
          self.count('run_if_false_with_repeat_option')
      elif o['force_repeat']:
        rep = True
      elif o['repeat_on_measurement_fail'] and self.records[-1][1] == 'FAIL':
        rep = True
      if rep and not is_last:
        i += 1
        self.count('repeat')
        continue
      break
    if (self.s['stop_on_first_failure'] or self.s['conf_stop_on_first_failure']) and \
        len(self.records) > n_before and self.records[-1][1] == 'FAIL':
      if is_terminal_result(res) and res != 'STOP' and self.first_terminal is None:
        # a failed invocation was being repeated when a later iteration ended terminally
        # without a record of its own (run_if raised): "stop on first failure" (FAIL) and
        # "the exception decides" (ERROR/TIMEOUT) both describe the run
        self.alt_outcomes.add('FAIL')
        self.count('stop_on_first_failure_vs_later_terminal')
      else:
        res = 'STOP'
        self.count('stop_on_first_failure')
    if is_terminal_result(res):
      if self.first_terminal is None:
        self.first_terminal = res
      return TERMINAL
    if res == 'FAIL_SUBTEST':
      S.failed = True
      S.outcome = 'FAIL'
      self.count('fail_subtest')
    return CONTINUE

  # ------------------------------------------------------------- other nodes
  def _cond(self, cond, results):
    has = [r in self.store for r in results]
    if cond == 'ALL':
      return all(has)
    if cond == 'ANY':
      return any(has)
    if cond == 'NOT_ANY':
      return not any(has)
    return not all(has)

  def run_ckpt(self, n, S, td):
    if not td and S is not None and S.failed:
      self.ckpts.append((n['name'], 'SKIP'))
      return CONTINUE
    if n['t'] == 'ckpt_fail':
      if not self.records:
        res = 'EXC:NoPhasesFoundError'
      else:
        if n['prev'] == 'LAST':
          hit = self.records[-1][1] == 'FAIL'
        elif n['prev'] == 'SUBTEST' and S is not None:
          hit = any(r[1] == 'FAIL' and r[2] == S.name for r in self.records)
        else:
          hit = any(r[1] == 'FAIL' for r in self.records)
        res = n['action'] if hit else 'CONTINUE'
    else:
      res = n['action'] if self._cond(n['cond'], n['results']) else 'CONTINUE'
    if res == 'FAIL_SUBTEST' and S is None:
      res = 'EXC:InvalidPhaseResultError'
    self.ckpts.append((n['name'], res))
    self.count('ckpt_' + res.split(':')[0])
    if is_terminal_result(res):
      if self.first_terminal is None:
        self.first_terminal = res
      return TERMINAL
    if res == 'FAIL_SUBTEST':
      S.failed = True
      S.outcome = 'FAIL'
    return CONTINUE

  def run_seq(self, nodes, S, td):
    if td:
      ret = CONTINUE
      for n in nodes or []:
        self._point('td_boundary')
        if self.run_node(n, S, True) == TERMINAL:
          ret = TERMINAL
      return ret
    for n in nodes or []:
      self._point('boundary')
      if self.aborted:
        return TERMINAL
      r = self.run_node(n, S, False)
      if r != CONTINUE:
        return r
    return CONTINUE

  def run_node(self, n, S, td):
    t = n['t']
    if t == 'phase':
      return self.run_phase(n, S, td)
    if t in ('ckpt_fail', 'ckpt_diag'):
      return self.run_ckpt(n, S, td)
    if t == 'seq':
      return self.run_seq(n['nodes'], S, td)
    if t == 'subtest':
      rec = SubRec(n['name'], bool(S is not None and S.failed))
      r = self.run_seq(n['nodes'], rec, td)
      if r == TERMINAL:
        rec.outcome = 'STOP'
      self.subtests.append((rec.name, rec.outcome))
      return r
    if t == 'branch':
      if not td and S is not None and S.failed:
        return CONTINUE
      taken = self._cond(n['cond'], n['results'])
      r = CONTINUE
      if taken:
        self.count('branch_taken')
        r = self.run_seq(n['nodes'], S, td)
      else:
        self.count('branch_not_taken')
      self.branches.append((n['name'], taken))
      return r
    if t == 'group':
      g = {'name': n['name'], 'entered': False, 'node': n}
      self.groups.append(g)
      skip = S is not None and S.failed
      if n.get('setup'):
        r = self.run_seq(n['setup'], S, td)
        if r != CONTINUE:
          self.count('group_setup_terminal')
          return r
        if not skip:
          skip = S is not None and S.failed
      g['entered'] = not skip
      if skip:
        self.count('group_skipped')
      main_r = CONTINUE
      if n.get('main'):
        main_r = self.run_seq(n['main'], S, td)
      td_r = CONTINUE
      if n.get('teardown'):
        if main_r == TERMINAL and not skip:
          self.count('teardown_after_terminal_main')
        td_r = self.run_seq(n['teardown'], S, not skip)
      return TERMINAL if TERMINAL in (main_r, td_r) else CONTINUE
    raise AssertionError(t)

  # --------------------------------------------------------------------- run
  def run(self):
    spec = self.spec
    ts = spec['test_start']
    plug_cfg = spec['plug_cfg']

    def ctor_fails(phases):
      for ph in phases:
        for _, pi in ph['plugs'].items():
          if plug_cfg[pi]['ctor'] == 'raise':
            return True
      return False

    from wx import gen
    tree_phases = gen.all_phase_specs(spec)
    done = False
    if isinstance(ts, dict):
      if ctor_fails([ts]):
        self.plug_init_failed = True
        self.first_terminal = 'EXC:OtherExc'
        done = True
      else:
        r = self.run_phase_as_test_start(ts)
        if r == TERMINAL:
          self.test_start_terminal = True
          done = True
    elif ts == 'lambda':
      self.records.append(('trigger_phase', 'PASS', None, 'CONTINUE'))
    if not done:
      if ctor_fails(tree_phases):
        self.plug_init_failed = True
        self.first_terminal = 'EXC:OtherExc'
        done = True
    if not done:
      self.run_seq(spec['nodes'], None, False)
      for d in spec['test_diags']:
        self.test_diag_events.append(d['name'])
        if d['outs'] == 'raise':
          if self.first_terminal is None:
            self.first_terminal = 'EXC:OtherExc'
          continue
        for (r, f) in d['outs']:
          f = bool(f) or d.get('always_fail', False)
          self.store.add(r)
          if f:
            self.failure_diag = True
    self.outcomes = self._outcomes()
    return self

  def run_phase_as_test_start(self, ts):
    saved = (self.s['stop_on_first_failure'], self.s['conf_stop_on_first_failure'])
    # stop_on_first_failure is a rule of the node executor, not of test_start
    self.s = dict(self.s, stop_on_first_failure=False, conf_stop_on_first_failure=False)
    try:
      self._point('boundary')
      return self.run_phase(ts, None, False)
    finally:
      self.s = dict(self.s, stop_on_first_failure=saved[0], conf_stop_on_first_failure=saved[1])

  def _outcomes(self):
    ft = self.first_terminal
    if ft is not None:
      if ft.startswith('EXC:'):
        if ft == 'EXC:FailExc' and self.s['failure_exceptions']:
          return {'FAIL'}
        return {'ERROR'} | self.alt_outcomes
      if ft == 'TIMEOUT':
        return {'TIMEOUT'} | self.alt_outcomes
      return {'FAIL'}
    recs = self.records
    if any(r[1] == 'FAIL' for r in recs):
      return {'FAIL'}
    out = set()
    if recs and all(r[1] == 'SKIP' for r in recs):
      out.add('ERROR')
    if self.failure_diag or any(s[1] == 'FAIL' for s in self.subtests):
      out.add('FAIL')
    if not out:
      out.add('PASS')
    return out


def abort_variants(spec, limit=400, with_origins=False):
  """All invocation sequences a single abort can legitimately produce.

  Returns (set of tuples, number of points).  The abort-free sequence is
  included (an abort that arrives after the last node changes nothing).
  """
  base = Model(spec).run()
  out = {tuple(base.invocations)}
  origins = {tuple(base.invocations): [('none', None)]}
  n = min(base.points, limit)
  for k in range(n):
    m = Model(spec)
    m.abort_at = k
    m.run()
    inv = tuple(m.invocations)
    out.add(inv)
    # where the abort landed: ('body', invocation that was killed) or ('prebody', None)
    kind = getattr(m, 'abort_kind', None)
    killed = getattr(m, 'abort_killed', None)
    origins.setdefault(inv, []).append((kind, killed))
  if with_origins:
    return out, base.points, origins
  return out, base.points
