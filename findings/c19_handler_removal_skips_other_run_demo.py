"""C19: ending one run could drop a log message from another running test's record.

remove_record_handler() removed the finished run's RecordHandler from the 'openhtf' logger's handler
list in place while Logger.callHandlers() of another thread was iterating over that list (it takes no
lock): the iteration skipped the next handler - the RecordHandler of the other, still running test.
Also: TestState.last_run_phase_name read running_phase_state twice; a phase finishing in between made
formatting 'Test state: %s' raise inside the handlers, which dropped that message from the record.

usage: /venv/bin/python c19_handler_removal_skips_other_run_demo.py [repo]   (exit 1 = defect present)
"""
import logging
import sys
import threading
repo = sys.argv[1] if len(sys.argv) > 1 else '/repo'
sys.path.insert(0, repo)
logging.raiseExceptions = False
from openhtf.core import test_record
from openhtf.util import logs

logs.configure_logging()
htf_logger = logging.getLogger('openhtf')
in_dispatch = threading.Event()
go_on = threading.Event()


def notify_a():
  """Test A's update notification (e.g. a station server pushing the new log line)."""
  in_dispatch.set()
  go_on.wait(5)


rec_a = test_record.TestRecord('a', 'station', None)
rec_b = test_record.TestRecord('b', 'station', None)
uid_a, uid_b = 'uid-a', 'uid-b'
logs.initialize_record_handler(uid_a, rec_a, notify_a)
logs.initialize_record_handler(uid_b, rec_b, lambda: None)

t = threading.Thread(target=lambda: logging.getLogger('openhtf.core.something').info('the message'))
t.start()
in_dispatch.wait(5)
logs.remove_record_handler(uid_a)     # test A ends while the message is being dispatched
go_on.set()
t.join()
logs.remove_record_handler(uid_b)
got = [l.message for l in rec_b.log_records]
print('record of the still running test B:', got)
bad = got != ['the message']
print('defect present: the framework message is missing from B' if bad else 'ok')
sys.exit(1 if bad else 0)
