"""C01: a run without phase records PASSes vacuously even though a test diagnoser produced a
failure diagnosis (or a subtest was failed by a diagnosis checkpoint).

usage: /venv/bin/python c01_vacuous_pass_with_failure_diagnosis_demo.py [repo]  (exit 1 = defect present)
"""
import sys
repo = sys.argv[1] if len(sys.argv) > 1 else '/repo'
sys.argv = [sys.argv[0]]
sys.path.insert(0, repo)
import openhtf as htf


class Res(htf.DiagResultEnum):
  BAD = 'bad'
  OTHER = 'other'


@htf.TestDiagnoser(Res)
def always_bad(test_record, store):
  return htf.Diagnosis(Res.BAD, 'broken fixture', is_failure=True)


def never(test):
  pass


bad = 0
# 1. everything excluded by an untaken branch, test diagnoser reports a failure
recs = []
t = htf.Test(htf.BranchSequence(htf.DiagnosisCondition.on_all(Res.OTHER), never))
t.add_test_diagnosers(always_bad)
t.add_output_callbacks(recs.append)
ret = t.execute()
print('diagnosis: ret', ret, 'outcome', recs[0].outcome.name, 'failure diagnoses', [d.result.value for d in recs[0].diagnoses if d.is_failure])
if ret or recs[0].outcome.name == 'PASS':
  bad = 1
# 2. a subtest failed by a diagnosis checkpoint, no phase record at all
recs = []
t = htf.Test(htf.Subtest('sub', htf.DiagnosisCheckpoint('ck', htf.DiagnosisCondition.on_not_any(Res.OTHER), htf.PhaseResult.FAIL_SUBTEST)))
t.add_output_callbacks(recs.append)
ret = t.execute()
print('subtest: ret', ret, 'outcome', recs[0].outcome.name, 'subtests', [(s.name, s.outcome.name) for s in recs[0].subtests])
if ret or recs[0].outcome.name == 'PASS':
  bad = 1
print('FAIL' if bad else 'PASS')
sys.exit(bad)
