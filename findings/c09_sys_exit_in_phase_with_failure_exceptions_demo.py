"""C09/C01: a phase that calls sys.exit() in a Test configured with failure_exceptions.

SystemExit is not an Exception subclass: the phase thread ends without an outcome and the executor
reports the phase as killed (ThreadTerminationError result).  TestState._outcome_is_failure_exception
then read `.exc_val` of that result (only when failure_exceptions is non-empty): AttributeError in
the executor thread, the record was never finalized (outcome None, no end time) and Test.execute()
itself raised AttributeError ('NoneType' object has no attribute 'name') after handing the unfinished
record to the output callbacks.

usage: /venv/bin/python c09_sys_exit_in_phase_with_failure_exceptions_demo.py [repo]   (exit 1 = defect present)
"""
import sys
repo = sys.argv[1] if len(sys.argv) > 1 else '/repo'
sys.path.insert(0, repo)
sys.argv = [sys.argv[0]]
import openhtf as htf
from openhtf.util import console_output
console_output.CLI_QUIET = True


class Recoverable(Exception):
  pass


def quits(test):
  sys.exit(3)


test = htf.Test(quits)
test.configure(failure_exceptions=[Recoverable])
records = []
test.add_output_callbacks(records.append)
try:
  ret = test.execute(test_start=None)
  raised = None
except BaseException as e:  # pylint: disable=broad-except
  ret, raised = None, e
rec = records[0] if records else None
print('execute() returned', ret, 'raised', repr(raised))
print('record outcome:', rec.outcome if rec else None, 'end time set:', bool(rec and rec.end_time_millis))
bad = raised is not None or rec is None or rec.outcome is None
print('defect present' if bad else 'ok: the run ended with outcome %s' % rec.outcome.name)
sys.exit(1 if bad else 0)
