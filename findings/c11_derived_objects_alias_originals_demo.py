"""C11: phases / collections derived from another one shared its declarations.

wrap_or_copy (used by PhaseOptions, measures, diagnose, plug), load_code_info and with_plugs
copied only the lists, so the Measurement / PhasePlug objects of the derived phase were the
objects of the original; PhaseSequence.copy()/PhaseGroup.copy() (used when nesting) shared the
child nodes; with_plugs() returned self when nothing was substituted.  Modifying the derived
object changed the one it was derived from.

usage: /venv/bin/python c11_derived_objects_alias_originals_demo.py [repo]   (exit 1 = defect present)
"""
import sys
repo = sys.argv[1] if len(sys.argv) > 1 else '/repo'
sys.path.insert(0, repo)
import openhtf as htf
from openhtf.core import base_plugs


class Holder(base_plugs.BasePlug):
  pass


@htf.measures(htf.Measurement('m0').in_range(0, 10))
@htf.plug(holder=Holder)
def base(test, holder):
  pass


bad = []

derived = htf.PhaseOptions(timeout_s=3)(base)
derived.measurements[0].with_validator(lambda v: False)
if len(base.measurements[0].validators) != 1:
  bad.append('PhaseOptions()(phase): adding a validator to the derived phase added it to the original')

derived = htf.measures(htf.Measurement('extra'))(base)
derived.measurements[0].measured_value.set(3)
if base.measurements[0].measured_value.is_value_set:
  bad.append('measures()(phase): setting a value on the derived declaration set it on the original')

same = base.with_plugs(unrelated=Holder) if False else base.with_plugs()
if same is base:
  bad.append('with_plugs() without substitution returned the original object itself')

seq = htf.PhaseSequence(base, name='seq')
nested = htf.PhaseSequence(seq, name='outer')
inner = nested.nodes[0].nodes[0]
inner.options.timeout_s = 99
if seq.nodes[0].options.timeout_s == 99:
  bad.append('nesting a sequence: the nested copy shares its phase nodes with the original sequence')

grp = htf.PhaseGroup(main=[base], name='grp')
sub = htf.Subtest('sub', grp)
sub.nodes[0].main.nodes[0].options.timeout_s = 77
if grp.main.nodes[0].options.timeout_s == 77:
  bad.append('nesting a group: the nested copy shares its phase nodes with the original group')

for b in bad:
  print('DEFECT:', b)
print('defect present' if bad else 'ok: derived objects are independent copies')
sys.exit(1 if bad else 0)
