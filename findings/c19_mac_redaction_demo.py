"""C19: MAC addresses in non-string arguments were not redacted; mapping arguments lost the message.

MacAddressLogFilter rewrote only the message template and the *str* arguments.  A MAC address inside
any other argument (a list, a tuple, an object's __str__) reached the test record in full, and a
'%(name)s' style message (whose args is a mapping) was turned into a tuple of the mapping's keys,
so formatting failed inside RecordHandler.emit and the message never reached the record.

usage: /venv/bin/python c19_mac_redaction_demo.py [repo]   (exit 1 = defect present)
"""
import logging
import sys
repo = sys.argv[1] if len(sys.argv) > 1 else '/repo'
sys.path.insert(0, repo)
logging.raiseExceptions = False
from openhtf.core import test_record
from openhtf.util import logs

logs.configure_logging()
rec = test_record.TestRecord('dut', 'station', None)
logs.initialize_record_handler('uid1', rec, lambda: None)
lg = logs.get_record_logger_for('uid1')
mac = 'f8:8f:ca:12:34:56'
lg.info('plain %s', mac)
lg.info('in a list %s', [mac])
lg.info('in a tuple %s', (mac, 1))
lg.info('%(who)s has %(mac)s', {'who': 'dut', 'mac': mac})
logs.remove_record_handler('uid1')
msgs = [l.message for l in rec.log_records]
for m in msgs:
  print(repr(m))
bad = []
if len(msgs) != 4:
  bad.append('%d of 4 messages recorded' % len(msgs))
if any('12:34:56' in m for m in msgs):
  bad.append('a full MAC address reached the record')
for b in bad:
  print('DEFECT:', b)
print('defect present' if bad else 'ok')
sys.exit(1 if bad else 0)
