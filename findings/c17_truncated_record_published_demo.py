"""C17: (1) OutputToJSON/OutputToFile publish the staging file in a `finally`, so a serializer
or write error leaves a TRUNCATED record at the destination (replacing a previous complete one);
(2) a serializer returning bytes (the base class' own pickle default) is iterated int by int:
TypeError, and - because of (1) - an EMPTY file is published.

usage: /venv/bin/python c17_truncated_record_published_demo.py [repo]   (exit 1 = defect present)
"""
import os
import sys
import tempfile
repo = sys.argv[1] if len(sys.argv) > 1 else '/repo'
sys.argv = [sys.argv[0]]
sys.path.insert(0, repo)
import openhtf as htf
from openhtf.output import callbacks
from openhtf.output.callbacks import json_factory


def phase(test):
  test.logger.info('hello')


recs = []
t = htf.Test(phase)
t.add_output_callbacks(recs.append)
t.execute()
rec = recs[0]
d = tempfile.mkdtemp()
bad = 0

# (1) serializer fails after a few chunks; destination already holds a complete record
dest = os.path.join(d, 'rec.json')
json_factory.OutputToJSON(dest)(rec)
good = open(dest, 'rb').read()


class Failing(json_factory.OutputToJSON):
  def serialize_test_record(self, test_rec):
    for i, chunk in enumerate(json_factory.OutputToJSON.serialize_test_record(self, test_rec)):
      if i == 5:
        raise ValueError('serializer failed')
      yield chunk


try:
  Failing(dest)(rec)
except ValueError:
  pass
now = open(dest, 'rb').read()
print('after failed serialization: %d bytes (complete record: %d bytes)' % (len(now), len(good)))
if now != good:
  bad = 1


# (2) serializer returning bytes
class Bytes(callbacks.OutputToFile):
  @staticmethod
  def serialize_test_record(test_rec):
    return b'complete-record'


dest2 = os.path.join(d, 'rec.bin')
try:
  Bytes(dest2)(rec)
  print('bytes serializer wrote', open(dest2, 'rb').read())
  if open(dest2, 'rb').read() != b'complete-record':
    bad = 1
except TypeError as e:
  print('bytes serializer: TypeError %s; destination exists: %s' % (e, os.path.exists(dest2)))
  bad = 1
print('FAIL' if bad else 'PASS')
sys.exit(bad)
