"""C06: Measurement.validate never clears `marginal`: after a marginal value is overridden with a
non-marginal one (or with a failing one) the measurement still says marginal=True.

usage: /venv/bin/python c06_stale_marginal_demo.py [repo]   (exit 1 = defect present)
"""
import sys
repo = sys.argv[1] if len(sys.argv) > 1 else '/repo'
sys.argv = [sys.argv[0]]
sys.path.insert(0, repo)
import openhtf as htf


@htf.measures(htf.Measurement('level').in_range(0, 10, marginal_minimum=2, marginal_maximum=8),
              htf.Measurement('other').in_range(0, 10, marginal_minimum=2, marginal_maximum=8))
def phase(test):
  test.measurements.level = 9    # marginal
  test.measurements.level = 5    # overridden: comfortably inside
  test.measurements.other = 1    # marginal
  test.measurements.other = 50   # overridden: FAIL


recs = []
t = htf.Test(phase)
t.add_output_callbacks(recs.append)
t.execute()
m = recs[0].phases[0].measurements
print('level:', m['level'].outcome.name, 'marginal', m['level'].marginal, '| other:', m['other'].outcome.name,
      'marginal', m['other'].marginal)
bad = m['level'].marginal or m['other'].marginal
print('FAIL' if bad else 'PASS')
sys.exit(1 if bad else 0)
