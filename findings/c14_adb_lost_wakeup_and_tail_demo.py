"""C14/C15 on the ADB stream layer (fake USB device, real AdbConnection):

(1) lost wake-up: the thread that reads for a stream notifies the waiters *before* it releases the
    stream's reader lock.  A waiter woken by that notification still finds the lock taken, goes
    back to sleep - and when the reading thread then leaves (its own predicate is satisfied) nobody
    reads any more: the waiter sleeps until its timeout although its data is already on the wire.
(2) read(length) loses the buffered tail of a stream: when the stream closes with fewer than
    `length` bytes buffered the read raises AdbStreamClosedError and the bytes are never returned.

usage: /venv/bin/python c14_adb_lost_wakeup_and_tail_demo.py [repo]   (exit 1 = defect present)
"""
import struct
import sys
import threading
import time
import types
repo = sys.argv[1] if len(sys.argv) > 1 else '/repo'
sys.path.insert(0, repo)
m = types.ModuleType('libusb1'); m.LIBUSB_ERROR_TIMEOUT = -7
class USBError(Exception):
  def __init__(self, value=None):
    Exception.__init__(self, value); self.value = value
m.USBError = USBError; sys.modules['libusb1'] = m
sys.modules['usb1'] = types.ModuleType('usb1')
mc = types.ModuleType('M2Crypto'); mc.RSA = types.ModuleType('M2Crypto.RSA')
sys.modules['M2Crypto'] = mc; sys.modules['M2Crypto.RSA'] = mc.RSA
from openhtf.plugs.usb import adb_message, adb_protocol, usb_exceptions
import queue


class Transport(object):
  def __init__(self):
    self.h2d = queue.Queue(); self.d2h = queue.Queue()
  def write(self, data, timeout_ms=None):
    self.h2d.put(data)
  def read(self, length, timeout_ms=None):
    try:
      return self.d2h.get(True, None if timeout_ms is None else timeout_ms / 1000.0)
    except queue.Empty:
      raise usb_exceptions.UsbReadFailedError(USBError(-7), 'timeout')
  def close(self):
    pass


def send(tr, cmd, a0, a1, data=''):
  msg = adb_message.AdbMessage(cmd, a0, a1, data)
  tr.d2h.put(msg.header)
  if data:
    tr.d2h.put(data)


def recv(tr):
  h = tr.h2d.get(True, 5); d = tr.h2d.get(True, 5)
  cmd, a0, a1, ln, ck, mg = struct.unpack('<6I', h)
  return adb_message.AdbMessage.WIRE_TO_CMD[cmd], a0, a1, d


def connect():
  tr = Transport()
  send(tr, 'CNXN', 0x01000000, 64, 'device:SER:banner')
  conn = adb_protocol.AdbConnection.connect(tr, timeout_ms=2000)
  recv(tr)
  return tr, conn


bad = 0
# ---------------------------------------------------------------- (1) lost wake-up
tr, conn = connect()
send(tr, 'OKAY', 101, 1)
stream = conn.open_stream('shell:x', 2000)
recv(tr)
st = stream._transport
real_cond = st._message_received
state = {'hold': False}


class Cond(object):
  """Delays the reading thread between its notify_all() and the release of the reader lock."""
  def __getattr__(self, n):
    return getattr(real_cond, n)
  def __enter__(self):
    return real_cond.__enter__()
  def __exit__(self, *a):
    return real_cond.__exit__(*a)
  def notify_all(self):
    real_cond.notify_all()
    if state['hold']:
      state['hold'] = False
      real_cond.release()
      time.sleep(0.4)      # the woken waiter runs, finds the reader lock taken and waits again
      real_cond.acquire()


st._message_received = Cond()
result = {}


def reader():
  t0 = time.time()
  try:
    result['data'] = stream.read(timeout_ms=3000)
  except Exception as e:  # pylint: disable=broad-except
    result['data'] = 'EXC %s' % type(e).__name__
  result['took'] = time.time() - t0


def writer():
  stream.write('hi', 3000)


wt = threading.Thread(target=writer); wt.start()
recv(tr)                      # the host's WRTE; the writer thread now reads for the stream
time.sleep(0.2)
rt = threading.Thread(target=reader); rt.start()
time.sleep(0.2)               # the reader waits on the condition (the writer holds the reader lock)
state['hold'] = True
send(tr, 'OKAY', 101, 1)      # ack for the host's WRTE: the writer notifies, then leaves
wt.join()
send(tr, 'WRTE', 101, 1, 'payload')   # data for the reader is on the wire right away
rt.join()
print('(1) reader got %r after %.2fs' % (result['data'], result['took']))
if result['data'] != 'payload' or result['took'] > 2.0:
  bad = 1

# ---------------------------------------------------------------- (2) tail lost by read(length)
tr, conn = connect()
send(tr, 'OKAY', 102, 1)
stream = conn.open_stream('shell:y', 2000)
recv(tr)
send(tr, 'WRTE', 102, 1, 'abcdefg')
send(tr, 'CLSE', 102, 1)
got = []
try:
  while True:
    got.append(stream.read(5, timeout_ms=1000))
except usb_exceptions.AdbStreamClosedError:
  pass
print('(2) read(5) until closed returned', got)
if ''.join(got) != 'abcdefg':
  bad = 1
print('FAIL' if bad else 'PASS')
sys.exit(bad)
