"""C04: a phase body (test_start / setup / main) is started after the operator's abort call has
returned, when the abort completes (sets the flag, finds no running phase thread, resets the stop
flag) while the executor is between its abort check and the creation of the phase thread - or
before the executor has even created its PhaseExecutor.

The window is forced by parking the executor thread inside TestState.running_phase_context (i.e.
after the abort check, before the phase thread exists) until abort_from_sig_int() has returned.

usage: /venv/bin/python c04_late_start_after_abort_demo.py [repo]   (exit 1 = defect present)
"""
import sys
import threading
repo = sys.argv[1] if len(sys.argv) > 1 else '/repo'
sys.argv = [sys.argv[0]]
sys.path.insert(0, repo)
import openhtf as htf
from openhtf.core import test_state

events = []
aborted = threading.Event()
in_window = threading.Event()
orig = test_state.TestState.running_phase_context


def parked(self, phase_desc):
  if phase_desc.name == 'victim':
    in_window.set()
    aborted.wait(5)
  return orig(self, phase_desc)


test_state.TestState.running_phase_context = parked


def first(test):
  events.append('first')


def victim(test):
  events.append('victim body ran (after abort returned: %s)' % aborted.is_set())


t = htf.Test(first, victim)
recs = []
t.add_output_callbacks(recs.append)


def operator():
  in_window.wait(5)
  t.abort_from_sig_int()
  aborted.set()


th = threading.Thread(target=operator)
th.start()
t.execute()
th.join()
print('outcome', recs[0].outcome.name, 'events', events)
bad = any(e.startswith('victim') for e in events)
print('FAIL' if bad else 'PASS')
sys.exit(1 if bad else 0)
