"""C01/C04: force_repeat re-invokes a phase after a terminal result (STOP, exception, invalid
result, kill) and the later invocation's result decides: the run PASSes with an ERROR phase record.

usage: /venv/bin/python c01_force_repeat_swallows_terminal_demo.py [repo]   (exit 1 = defect present)
"""
import sys
repo = sys.argv[1] if len(sys.argv) > 1 else '/repo'
sys.argv = [sys.argv[0]]
sys.path.insert(0, repo)
import openhtf as htf

bad = 0
for what in ('STOP', 'raise'):
  calls = []

  @htf.PhaseOptions(force_repeat=True)
  def flaky(test):
    calls.append(1)
    if len(calls) == 1:
      if what == 'raise':
        raise ValueError('boom')
      return htf.PhaseResult.STOP

  recs = []
  t = htf.Test(flaky)
  t.add_output_callbacks(recs.append)
  ret = t.execute()
  outs = [p.outcome.name for p in recs[0].phases]
  print(what, 'ret', ret, 'outcome', recs[0].outcome.name, 'phase outcomes', outs, 'calls', len(calls))
  if ret or recs[0].outcome.name == 'PASS' or len(calls) != 1:
    bad = 1
print('FAIL' if bad else 'PASS')
sys.exit(bad)
