"""C10: the cached base-type rendering disagrees with the in-memory record:
 (a) TestRecord.as_base_types() has no 'checkpoints' entry although the record has checkpoint records;
 (b) a dimensioned measurement with a transform caches the value BEFORE the transform is applied;
 (c) while a dimensioned measurement is PARTIALLY_SET the live view still says outcome UNSET;
 (d) OutputToJSON(inline_attachments=True) writes Attachment objects into the record's cached
     phase rendering (later as_base_types() calls return non-base types).

usage: /venv/bin/python c10_stale_renderings_demo.py [repo]   (exit 1 = defect present)
"""
import io
import sys
repo = sys.argv[1] if len(sys.argv) > 1 else '/repo'
sys.argv = [sys.argv[0]]
sys.path.insert(0, repo)
import openhtf as htf
from openhtf.output.callbacks import json_factory

live = {}


@htf.PhaseOptions(requires_state=True)
@htf.measures(htf.Measurement('dimmed').with_dimensions('x').with_transform(lambda v: v * 2))
def phase(state):
  test = state.test_api
  test.measurements.dimmed[1] = 21
  snap = state.as_base_types()['running_phase_state']['measurements']['dimmed']
  live['outcome'] = snap['outcome']
  live['in_memory_outcome'] = state.running_phase_state.measurements['dimmed'].outcome.name
  live['value'] = snap.get('measured_value')
  test.attach('a.txt', b'attached data')


recs = []
t = htf.Test(phase, htf.PhaseFailureCheckpoint.last('ck'))
t.add_output_callbacks(recs.append)
t.execute()
rec = recs[0]
bad = 0
bt = rec.as_base_types()
print('(a) checkpoints in rendering:', 'checkpoints' in bt, '; records in memory:', len(rec.checkpoints))
if 'checkpoints' not in bt or len(bt['checkpoints']) != len(rec.checkpoints):
  bad = 1
print('(b) live rendering of dimmed:', live['value'], '; in memory:', rec.phases[0].measurements['dimmed'].measured_value.value)
if live['value'] != [(1, 42)]:
  bad = 1
print('(c) live outcome:', live['outcome'], '; in memory at that moment:', live['in_memory_outcome'])
if live['outcome'] != live['in_memory_outcome']:
  bad = 1
json_factory.OutputToJSON(io.BytesIO(), inline_attachments=True)(rec)
att = rec.as_base_types()['phases'][0]['attachments']['a.txt']
print('(d) cached attachment rendering after JSON output is a', type(att).__name__)
if not isinstance(att, dict):
  bad = 1
print('FAIL' if bad else 'PASS')
sys.exit(bad)
