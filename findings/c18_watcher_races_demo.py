"""C18: a second watcher could get a stale snapshot with an event that is never set.

PhaseState.as_base_types() took the set of pending measurement names, then refreshed the cached
dicts.  With two watcher threads, the second one snapshotting while the first was still refreshing
found nothing pending and returned the not-yet-refreshed cache - together with a fresh event that the
(already issued) notification does not set.  It had missed the update.
Two more races hit watcher threads on the same path: TestState.as_base_types() and Test.state read
an attribute twice (truth test, then use) while the test thread could reset it to None in between,
so the watcher died with AttributeError instead of seeing the test complete (found by ./check C18
seed 0, indices 3331 and 158, before the fixes).

usage: /venv/bin/python c18_watcher_races_demo.py [repo]   (exit 1 = defect present)
"""
import logging
import sys
import threading
repo = sys.argv[1] if len(sys.argv) > 1 else '/repo'
sys.path.insert(0, repo)
import openhtf as htf
from openhtf.core import measurements
from openhtf.core import test_descriptor
from openhtf.core import test_state


@htf.measures(htf.Measurement('m1'))
def phase(test):
  pass


desc = test_descriptor.TestDescriptor(htf.PhaseSequence(phase), None, {'test_name': 'demo'})
state = test_state.TestState(desc, 'uid', test_descriptor.TestOptions())
first_inside = threading.Event()
release_first = threading.Event()
orig = measurements.Measurement.as_base_types


def slow_as_base_types(self):
  if threading.current_thread().name == 'watcher-1' and self.name == 'm1' and not first_inside.is_set():
    first_inside.set()          # watcher 1 has taken the pending names and starts refreshing
    release_first.wait(5)
  return orig(self)


out = {}
with state.running_phase_context(phase) as phase_state:
  measurements.Measurement.as_base_types = slow_as_base_types
  state.test_api.measurements.m1 = 42          # the update (notification issued here)

  def watch(name):
    snap, ev = state.asdict_with_event()
    m = snap['running_phase_state']['measurements']['m1']
    out[name] = (m.get('measured_value'), ev.is_set())

  t1 = threading.Thread(target=watch, args=('w1',), name='watcher-1')
  t1.start()
  first_inside.wait(5)
  t2 = threading.Thread(target=watch, args=('w2',), name='watcher-2')
  t2.start()
  t2.join(1.0)
  if t2.is_alive():
    out['w2'] = ('(waits for watcher 1 to finish refreshing)', None)
  release_first.set()
  t1.join()
  t2.join()
  measurements.Measurement.as_base_types = orig
state.close()
print(out)
val, is_set = out['w2']
bad = val != 42 and not is_set
print('defect present: watcher 2 holds a snapshot without m1=42 and an event nobody will set' if bad else 'ok')
sys.exit(1 if bad else 0)
