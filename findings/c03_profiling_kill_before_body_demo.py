"""C03/C04: with profiling on, an abort that kills a phase thread before its body starts killed the executor.

Test.execute(profile_filename=...) runs every phase thread under cProfile.  If the operator's abort
kills a phase thread before its body (and therefore its profiler) has started, the executor's
`phase_thread.get_profile_stats()` raised TypeError ("Cannot create or construct a pstats.Stats object
from <cProfile.Profile ...>", pstats refuses a profiler that collected nothing).  The exception escaped
the executor thread: the teardown phases of the entered group never ran (plug tearDown still did).

usage: /venv/bin/python c03_profiling_kill_before_body_demo.py [repo]   (exit 1 = defect present)
"""
import os
import sys
import threading
repo = sys.argv[1] if len(sys.argv) > 1 else '/repo'
sys.path.insert(0, repo)
sys.argv = [sys.argv[0]]
import openhtf as htf
from openhtf.core import phase_executor
from openhtf.core import test_executor
from openhtf.util import console_output
console_output.CLI_QUIET = True
test_executor.combine_profile_stats = lambda stats, filename: None   # no temp files for the demo

ran = []
holder = {}


def first(test):
  ran.append('first')


def second(test):
  ran.append('second')


def teardown(test):
  ran.append('teardown')


# abort exactly when the thread of phase `second` has been created but not started
orig_start = phase_executor.PhaseExecutorThread.start


def start(self):
  if self.name.endswith('(second)>') and 'done' not in holder:
    holder['done'] = True
    t = threading.Thread(target=holder['test'].abort_from_sig_int)
    t.start()
    # the abort waits for our lock; kill this not-yet-started thread the way the abort would
    self.kill()
  return orig_start(self)


phase_executor.PhaseExecutorThread.start = start
test = htf.Test(htf.PhaseGroup(main=[first, second], teardown=[teardown]))
holder['test'] = test
records = []
test.add_output_callbacks(records.append)
test.execute(test_start=None, profile_filename=os.devnull)
print('phases that ran:', ran, 'outcome:', records[0].outcome.name if records else None)
bad = 'teardown' not in ran
print('defect present: the group teardown phase did not run' if bad else 'ok: teardown ran')
sys.exit(1 if bad else 0)
