"""Demonstrates (on the pre-fix tree) C01/C05: a false run_if writes no phase record, yet
stop_on_first_failure / repeat_on_measurement_fail index test_record.phases[-1]:
IndexError kills the executor thread, the test finalizes PASS with zero phases and
execute() returns True although the second phase never ran.

usage: /venv/bin/python c01_runif_indexerror_demo.py [repo path]   (exit 1 = defect present)
"""
import sys
repo = sys.argv[1] if len(sys.argv) > 1 else '/repo'
sys.argv = [sys.argv[0]]
sys.path.insert(0, repo)
import openhtf as htf

ran = []


@htf.PhaseOptions(run_if=lambda: False)
def skipped(test):
  ran.append('skipped')


def second(test):
  ran.append('second')
  return htf.PhaseResult.FAIL_AND_CONTINUE


@htf.PhaseOptions(run_if=lambda: False, repeat_on_measurement_fail=True)
def skipped2(test):
  ran.append('skipped2')


bad = 0
for name, phases, cfg in (('stop_on_first_failure', [skipped, second], dict(stop_on_first_failure=True)),
                          ('repeat_on_measurement_fail', [skipped2, second], {})):
  del ran[:]
  recs = []
  t = htf.Test(*phases)
  t.configure(**cfg)
  t.add_output_callbacks(recs.append)
  ret = t.execute()
  print(name, 'ret', ret, 'outcome', recs[0].outcome.name, 'ran', ran)
  if ret or 'second' not in ran:
    bad = 1
print('FAIL' if bad else 'PASS')
sys.exit(bad)
