"""C10: pending measurement updates were dropped when rendering one of them raised.

PhaseState.as_base_types() swapped the set of pending measurement names out *before* refreshing their
cached dicts.  If refreshing one of them raised (a live-view reader racing with an assignment to a
dimensioned measurement gets "OrderedDict mutated during iteration"), the names not yet refreshed were
forgotten: their cached rendering - also of plain, undimensioned measurements - stayed without the
measured value for every later, perfectly quiescent read of the running phase.

usage: /venv/bin/python c10_pending_updates_lost_when_rendering_raises_demo.py [repo]   (exit 1 = defect present)
"""
import sys
repo = sys.argv[1] if len(sys.argv) > 1 else '/repo'
sys.path.insert(0, repo)
sys.argv = [sys.argv[0]]
import openhtf as htf
from openhtf.core import measurements
from openhtf.core import test_descriptor
from openhtf.core import test_state


@htf.measures(htf.Measurement('sweep').with_dimensions('ms'), htf.Measurement('plain'))
def phase(test):
  pass


desc = test_descriptor.TestDescriptor(htf.PhaseSequence(phase), None, {'test_name': 'demo'})
state = test_state.TestState(desc, 'uid', test_descriptor.TestOptions())
orig = measurements.Measurement.as_base_types
boom = {'armed': True}


def flaky(self):
  if boom['armed']:
    boom['armed'] = False    # whichever pending measurement is refreshed first
    raise RuntimeError('OrderedDict mutated during iteration')   # what a racing reader gets
  return orig(self)


bad = False
with state.running_phase_context(phase) as ps:
  state.test_api.measurements.sweep[1] = 10
  state.test_api.measurements.plain = 7
  measurements.Measurement.as_base_types = flaky
  try:
    state.as_base_types()            # the reader's snapshot that fails ...
  except RuntimeError:
    pass
  measurements.Measurement.as_base_types = orig
  snap = state.as_base_types()       # ... and a later, quiescent one
  ms = snap['running_phase_state']['measurements']
  print('quiescent rendering:', ms['plain'], ms['sweep'])
  bad = ms['plain'].get('measured_value') != 7 or 'measured_value' not in ms['sweep']
state.close()
print('defect present: a set value is missing from the live view' if bad else 'ok')
sys.exit(1 if bad else 0)
