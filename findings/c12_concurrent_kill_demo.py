"""C12: two concurrent kill() calls on a KillableThread whose body has already returned.

kill() decides "is the thread proc running?" by trying to acquire _running_lock.  While one
kill() holds the lock for that probe, a second kill() fails to acquire it, concludes that the body
is running and raises ThreadTerminationError asynchronously - which lands in the thread's
_thread_finished handler, although both kills were requested after the body had returned.

usage: /venv/bin/python c12_concurrent_kill_demo.py [repo]   (exit 1 = defect present)
"""
import sys
import threading
import time
repo = sys.argv[1] if len(sys.argv) > 1 else '/repo'
sys.path.insert(0, repo)
from openhtf.util import threads

in_handler = threading.Event()
release_handler = threading.Event()
probe_held = threading.Event()
second_done = threading.Event()
result = {}


class Victim(threads.KillableThread):

  def _thread_proc(self):
    pass

  def _thread_finished(self):
    in_handler.set()
    try:
      # stay in the handler (executing bytecode) until both kills are done
      deadline = time.time() + 5
      while not release_handler.is_set() and time.time() < deadline:
        pass
      result['handler'] = 'completed'
    except BaseException as e:  # pylint: disable=broad-except
      result['handler'] = 'interrupted by %s' % type(e).__name__
      raise


class ProbeLock(object):
  """Wraps _running_lock: parks the first successful probe until the second kill() is done."""

  def __init__(self, real):
    self.real = real
    self.first = True

  def acquire(self, *a):
    ok = self.real.acquire(*a)
    if ok and a and a[0] is False and self.first and in_handler.is_set():
      self.first = False
      probe_held.set()
      second_done.wait(5)
    return ok

  def release(self):
    return self.real.release()

  def __enter__(self):
    return self.real.acquire()

  def __exit__(self, *a):
    self.real.release()


v = Victim()
v.daemon = True
v._running_lock = ProbeLock(v._running_lock)
v.start()
in_handler.wait(5)
k1 = threading.Thread(target=v.kill)
k1.start()
probe_held.wait(5)
v.kill()           # second, concurrent kill: requested after the body returned
second_done.set()
k1.join()
time.sleep(0.2)
release_handler.set()
v.join(5)
print('handler:', result.get('handler'))
bad = result.get('handler') != 'completed'
print('FAIL' if bad else 'PASS')
sys.exit(1 if bad else 0)
