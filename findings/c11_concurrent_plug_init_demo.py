"""C11/C19: two tests that instantiate the same plug type at the same time.

PlugManager.initialize_plugs() parks the running test's logger on the plug *class* while the
constructor runs.  A second test initialising the same plug type meanwhile saw the foreign logger:
it ended with outcome ERROR (InvalidPlugError 'Do not override "logger" in your plugs'), i.e. the
result of one test depended on another test in the same process.

usage: /venv/bin/python c11_concurrent_plug_init_demo.py [repo]   (exit 1 = defect present)
"""
import sys
import threading
import time
repo = sys.argv[1] if len(sys.argv) > 1 else '/repo'
sys.path.insert(0, repo)
import openhtf as htf
from openhtf.core import base_plugs
from openhtf.util import console_output
console_output.CLI_QUIET = True


class SlowPlug(base_plugs.BasePlug):

  def __init__(self):
    time.sleep(0.4)   # e.g. opening a device


@htf.plug(p=SlowPlug)
def phase(test, p):
  pass


records = {}


def run(name, delay):
  time.sleep(delay)
  t = htf.Test(phase, test_name=name)
  t.add_output_callbacks(lambda r: records.__setitem__(name, r))
  t.execute(test_start=lambda: name)


ths = [threading.Thread(target=run, args=('A', 0)), threading.Thread(target=run, args=('B', 0.2))]
for t in ths:
  t.start()
for t in ths:
  t.join()
bad = False
for name in sorted(records):
  r = records[name]
  print(name, r.outcome.name, [d.code for d in r.outcome_details])
  bad = bad or r.outcome.name != 'PASS'
print('defect present' if bad else 'ok: both tests passed')
sys.exit(1 if bad else 0)
