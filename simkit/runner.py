"""Generic search / replay / minimise / evidence driver shared by all checks.

A check module provides:
  PROPERTY, LEVEL, RULE, ASSUMPTIONS, COMPONENTS, TECHNIQUE
  setup()                 imported-once preparation (before forking)
  run_one(tape) -> dict   one simulated run (see RESULT KEYS below)
  QUICK / THOROUGH        dicts: budget_s, max_runs (optional)

RESULT KEYS: violations [ {clause, details{...}} ], digest, sched, nontrivial,
faults {kind: n}, probes {name: n}, steps, switches, preempts, sim_s, sample,
abnormal (None | str: harness problem), poison (bool).
"""
import faulthandler
import hashlib
import json
import mmap
import os
import pickle
import select
import signal
import struct
import subprocess
import sys
import time
import traceback

from simkit import core
from simkit import tape as tape_mod

VERIF = os.path.dirname(os.path.dirname(os.path.abspath(__file__)))
_OUT = os.environ.get('VERIF_OUT') or VERIF  # scratch output dir for mutant trials
REPLAY_DIR = os.path.join(_OUT, 'replays')
EVIDENCE_DIR = os.path.join(_OUT, 'evidence')
KNOWN_FILE = os.path.join(VERIF, 'known_findings.json')

_rt = core._real_time


# ----------------------------------------------------------------- utilities
def repo_state():
  try:
    head = subprocess.check_output(['git', '-C', '/repo', 'rev-parse', 'HEAD'],
                                   stderr=subprocess.DEVNULL).decode().strip()
    diff = subprocess.check_output(['git', '-C', '/repo', 'diff', 'HEAD', '--', 'openhtf'],
                                   stderr=subprocess.DEVNULL)
    return head, hashlib.sha1(diff).hexdigest()[:12] if diff else 'clean'
  except Exception:  # pylint: disable=broad-except
    return 'unknown', 'unknown'


def load_known(prop):
  try:
    with open(KNOWN_FILE) as f:
      data = json.load(f)
  except FileNotFoundError:
    return []
  return [k for k in data.get('findings', [])
          if k.get('property') == prop and k.get('status') == 'open']


def match_known(known, viol):
  """Returns the known-finding entry whose signature this violation matches."""
  for k in known:
    if k.get('clause') != viol['clause']:
      continue
    det = viol.get('details', {})
    ok = True
    for key, want in k.get('match', {}).items():
      have = det.get(key)
      if isinstance(want, list):
        if have not in want:
          ok = False
      elif have != want:
        ok = False
      if not ok:
        break
    if ok:
      return k
  return None


def _send(fd, obj):
  data = pickle.dumps(obj, protocol=pickle.HIGHEST_PROTOCOL)
  data = struct.pack('<I', len(data)) + data
  off = 0
  while off < len(data):
    off += os.write(fd, data[off:off + 65536])


class _Reader(object):

  def __init__(self, fd):
    self.fd = fd
    self.buf = b''
    self.eof = False

  def pump(self):
    try:
      chunk = os.read(self.fd, 1 << 20)
    except BlockingIOError:
      return []
    if not chunk:
      self.eof = True
      return []
    self.buf += chunk
    out = []
    while len(self.buf) >= 4:
      n = struct.unpack('<I', self.buf[:4])[0]
      if len(self.buf) < 4 + n:
        break
      out.append(pickle.loads(self.buf[4:4 + n]))
      self.buf = self.buf[4 + n:]
    return out


class Agg(object):
  """Aggregated statistics of a batch of runs."""

  def __init__(self):
    self.runs = 0
    self.nontrivial = 0
    self.digests = set()
    self.scheds = set()
    self.faults = {}
    self.probes = {}
    self.steps = 0
    self.switches = 0
    self.preempts = 0
    self.sim_s = 0.0
    self.samples = []
    self.abnormal = {}
    self.mismatch = 0
    self.counts = {}

  def add(self, res, idx):
    self.runs += 1
    if res.get('nontrivial'):
      self.nontrivial += 1
      d = res.get('digest')
      if d:
        self.digests.add(d[:16])
    s = res.get('sched')
    if s:
      self.scheds.add(s[:16])
    for k, v in (res.get('faults') or {}).items():
      self.faults[k] = self.faults.get(k, 0) + v
    for k, v in (res.get('probes') or {}).items():
      self.probes[k] = self.probes.get(k, 0) + v
    for k, v in (res.get('counts') or {}).items():
      self.counts[k] = self.counts.get(k, 0) + v
    self.steps += res.get('steps', 0)
    self.switches += res.get('switches', 0)
    self.preempts += res.get('preempts', 0)
    self.sim_s += res.get('sim_s', 0.0)
    if res.get('abnormal'):
      a = res['abnormal'].split(':')[0]
      self.abnormal[a] = self.abnormal.get(a, 0) + 1
    if res.get('sample') is not None and len(self.samples) < 2 and res.get('nontrivial'):
      self.samples.append({'run_index': idx, 'case': res['sample']})

  def merge(self, o):
    self.runs += o.runs
    self.nontrivial += o.nontrivial
    self.digests |= o.digests
    self.scheds |= o.scheds
    for k, v in o.faults.items():
      self.faults[k] = self.faults.get(k, 0) + v
    for k, v in o.probes.items():
      self.probes[k] = self.probes.get(k, 0) + v
    for k, v in o.counts.items():
      self.counts[k] = self.counts.get(k, 0) + v
    self.steps += o.steps
    self.switches += o.switches
    self.preempts += o.preempts
    self.sim_s += o.sim_s
    self.samples.extend(o.samples)
    for k, v in o.abnormal.items():
      self.abnormal[k] = self.abnormal.get(k, 0) + v
    self.mismatch += o.mismatch


def run_guarded(mod, tp, timeout_s=90):
  """One run with a wall-clock watchdog; harness exceptions become 'abnormal'."""
  faulthandler.dump_traceback_later(timeout_s, exit=True)
  try:
    res = mod.run_one(tp)
  except BaseException as e:  # pylint: disable=broad-except
    res = {'violations': [], 'abnormal': 'harness-exception: %s: %s\n%s' % (
        type(e).__name__, e, traceback.format_exc()[-1500:]), 'poison': True}
    if core.SIM is not None:
      core.SIM = None
    sys.settrace(None)
  finally:
    faulthandler.cancel_dump_traceback_later()
  return res


def _worker(mod, seed, wid, nworkers, k0, deadline, max_runs, wfd, shm, stop_after_viol):
  agg = Agg()
  k = k0
  last_flush = _rt()
  nviol = 0
  known = load_known(mod.PROPERTY)
  try:
    while True:
      idx = wid + k * nworkers
      if (max_runs is not None and idx >= max_runs) or _rt() >= deadline:
        break
      if struct.unpack_from('<q', shm, 8 * nworkers)[0]:
        break  # the parent has enough violations
      struct.pack_into('<q', shm, 8 * wid, idx)
      tp = tape_mod.Tape(tape_mod.derive_seed(seed, mod.PROPERTY, idx))
      res = run_guarded(mod, tp)
      agg.add(res, idx)
      k += 1
      if res.get('violations'):
        if any(match_known(known, v) is None for v in res['violations']):
          nviol += 1
        _send(wfd, ('viol', idx, res['violations'], tp.recorded(), res.get('sample'),
                    [wid + j * nworkers for j in range(k0, k - 1)]))
      if res.get('abnormal'):
        _send(wfd, ('abn', idx, res['abnormal']))
      if res.get('poison'):
        _send(wfd, ('agg', agg))
        _send(wfd, ('poison', k))
        os._exit(0)
      if nviol >= stop_after_viol:
        break
      now = _rt()
      if now - last_flush > 2.0:
        _send(wfd, ('agg', agg))
        agg = Agg()
        last_flush = now
    _send(wfd, ('agg', agg))
    _send(wfd, ('done', k))
  except BaseException:  # pylint: disable=broad-except
    try:
      _send(wfd, ('abn', -1, 'worker-exception: ' + traceback.format_exc()[-1500:]))
    except Exception:  # pylint: disable=broad-except
      pass
  os._exit(0)


def search(mod, seed, budget_s, max_runs, nworkers, stop_after_viol=3):
  """Seeded search over run indices.  Returns (agg, violations, abnormal, wall)."""
  t0 = _rt()
  deadline = t0 + budget_s
  shm = mmap.mmap(-1, 8 * (nworkers + 1))
  known = load_known(mod.PROPERTY)
  n_unknown = [0]
  n_known_kept = [0]
  struct.pack_into('<q', shm, 8 * nworkers, 0)
  for w in range(nworkers):
    struct.pack_into('<q', shm, 8 * w, -1)
  workers = {}  # wid -> (pid, reader)
  total = Agg()
  viols = []
  abns = []
  done = set()

  def spawn(wid, k0):
    r, w = os.pipe()
    pid = os.fork()
    if pid == 0:
      os.close(r)
      for (_, rd) in workers.values():
        try:
          os.close(rd.fd)
        except OSError:
          pass
      _worker(mod, seed, wid, nworkers, k0, deadline, max_runs, w, shm, stop_after_viol)
      os._exit(0)
    os.close(w)
    os.set_blocking(r, False)
    workers[wid] = (pid, _Reader(r))

  for wid in range(nworkers):
    spawn(wid, 0)
  hard_deadline = deadline + 120
  respawns = 0
  while workers:
    fds = {rd.fd: wid for wid, (_, rd) in workers.items()}
    ready, _, _ = select.select(list(fds), [], [], 1.0)
    for fd in ready:
      wid = fds[fd]
      pid, rd = workers[wid]
      finished = None
      for msg in rd.pump():
        if msg[0] == 'agg':
          total.merge(msg[1])
        elif msg[0] == 'viol':
          if any(match_known(known, v) is None for v in msg[2]):
            n_unknown[0] += 1
            viols.append({'idx': msg[1], 'violations': msg[2], 'tape': msg[3], 'sample': msg[4], 'hist': msg[5]})
          else:
            n_known_kept[0] += 1
            if n_known_kept[0] <= 50:
              viols.append({'idx': msg[1], 'violations': msg[2], 'tape': msg[3], 'sample': msg[4], 'hist': msg[5]})
            else:
              viols.append({'idx': msg[1], 'violations': msg[2], 'tape': None, 'sample': None})
        elif msg[0] == 'abn':
          abns.append((msg[1], msg[2]))
        elif msg[0] == 'poison':
          finished = ('poison', msg[1])
        elif msg[0] == 'done':
          finished = ('done', msg[1])
      if finished or rd.eof:
        os.close(rd.fd)
        try:
          os.waitpid(pid, 0)
        except ChildProcessError:
          pass
        del workers[wid]
        if finished and finished[0] == 'poison':
          if _rt() < deadline and n_unknown[0] < stop_after_viol and respawns < 5000:
            respawns += 1
            spawn(wid, finished[1])
        elif not finished:
          idx = struct.unpack_from('<q', shm, 8 * wid)[0]
          abns.append((idx, 'worker-died: no result for run index %d (see stderr)' % idx))
          if _rt() < deadline and respawns < 5000:
            respawns += 1
            k_next = (idx - wid) // nworkers + 1 if idx >= 0 else 0
            spawn(wid, k_next)
    if n_unknown[0] >= stop_after_viol:
      # enough material: workers stop after their current run and flush
      struct.pack_into('<q', shm, 8 * nworkers, 1)
    if _rt() > hard_deadline:
      for wid, (pid, rd) in list(workers.items()):
        idx = struct.unpack_from('<q', shm, 8 * wid)[0]
        abns.append((idx, 'worker-stuck: killed after hard deadline at run index %d' % idx))
        try:
          os.kill(pid, signal.SIGKILL)
          os.waitpid(pid, 0)
        except (ProcessLookupError, ChildProcessError):
          pass
        os.close(rd.fd)
        del workers[wid]
  total.respawns = respawns
  return total, viols, abns, _rt() - t0


# ------------------------------------------------------------- forked one-off
def run_tape_forked(mod, values, timeout_s=60, history=None):
  """Run one tape in a forked child; returns result dict or None on failure.

  history: [(seed, run_index), ...] - earlier runs executed first in the same child process, for
  violations that depend on what earlier runs left behind in the process (cross-run state)."""
  r, w = os.pipe()
  pid = os.fork()
  if pid == 0:
    os.close(r)
    try:
      for (hseed, hidx) in (history or []):
        htp = tape_mod.Tape(tape_mod.derive_seed(hseed, mod.PROPERTY, hidx))
        hres = run_guarded(mod, htp, timeout_s)
        if hres.get('poison'):
          break
      tp = tape_mod.Tape(values=values)
      res = run_guarded(mod, tp, timeout_s)
      out = {'violations': res.get('violations', []), 'abnormal': res.get('abnormal'),
             'digest': res.get('digest'), 'rec': tp.recorded(), 'sample': res.get('sample'),
             'mismatch': tp.mismatch, 'exhausted': tp.exhausted}
      _send(w, out)
    except BaseException:  # pylint: disable=broad-except
      pass
    os._exit(0)
  os.close(w)
  rd = _Reader(r)
  os.set_blocking(r, False)
  end = _rt() + timeout_s + 5 + 2 * len(history or [])
  out = None
  while _rt() < end and not rd.eof:
    ready, _, _ = select.select([r], [], [], 0.5)
    if ready:
      msgs = rd.pump()
      if msgs:
        out = msgs[0]
        break
  try:
    if out is None:
      os.kill(pid, signal.SIGKILL)
  except ProcessLookupError:
    pass
  try:
    os.waitpid(pid, 0)
  except ChildProcessError:
    pass
  os.close(r)
  return out


def _same_violation(res, clause, known):
  if not res:
    return None
  for v in res.get('violations', []):
    if v['clause'] == clause and match_known(known, v) is None:
      return v
  return None


def minimise_history(mod, values, clause, known, history, budget_s=60, max_cands=60):
  """Shrinks the list of earlier runs a cross-run violation needs (the final tape stays last)."""
  t_end = _rt() + budget_s
  cands = [0]

  def ok(h):
    if _rt() > t_end or cands[0] >= max_cands:
      return False
    cands[0] += 1
    return _same_violation(run_tape_forked(mod, values, 60, h), clause, known) is not None

  best = list(history)
  # shortest suffix
  n = 1
  while n < len(best):
    if ok(best[-n:]):
      best = best[-n:]
      break
    n *= 2
  # drop single runs
  i = 0
  while i < len(best) and len(best) > 1:
    c = best[:i] + best[i + 1:]
    if ok(c):
      best = c
    else:
      i += 1
  return best, cands[0]


def minimise(mod, values, clause, known, budget_s=60, max_cands=600, history=None):
  """Generic tape shrinking; keeps candidates that violate the same clause."""
  t_end = _rt() + budget_s
  best = list(values)
  cands = [0]

  def test(c):
    if _rt() > t_end or cands[0] >= max_cands:
      return None
    cands[0] += 1
    res = run_tape_forked(mod, c, 30, history)
    v = _same_violation(res, clause, known)
    if v is None:
      return None
    return res['rec']  # canonical recorded tape of that run

  # 1. shortest failing prefix (zeros after it)
  lo, hi = 0, len(best)
  while lo < hi:
    mid = (lo + hi) // 2
    r = test(best[:mid])
    if r is not None:
      hi = mid
      best_candidate = best[:mid]
      best = best_candidate
    else:
      lo = mid + 1
    if _rt() > t_end:
      break
  # 2. zero out blocks
  size = max(1, len(best) // 2)
  while size >= 1 and _rt() < t_end and cands[0] < max_cands:
    i = 0
    changed = False
    while i < len(best) and _rt() < t_end and cands[0] < max_cands:
      blk = best[i:i + size]
      if any(blk):
        c = best[:i] + [0] * len(blk) + best[i + size:]
        if test(c) is not None:
          best = c
          changed = True
      i += size
    if size == 1:
      break
    size = size // 2
  # 3. halve remaining non-zero values
  for i, v in enumerate(best):
    if _rt() > t_end or cands[0] >= max_cands:
      break
    while v > 1:
      c = list(best)
      c[i] = v // 2
      if test(c) is not None:
        best = c
        v = v // 2
      else:
        break
  # strip trailing zeros
  while best and best[-1] == 0:
    best.pop()
  final = run_tape_forked(mod, best, 30, history)
  if _same_violation(final, clause, known) is None:
    return list(values), cands[0]
  return best, cands[0]


# --------------------------------------------------------------------- output
def write_replay(mod, values, viol, seed, idx, sample, extra=None):
  os.makedirs(REPLAY_DIR, exist_ok=True)
  head, dirty = repo_state()
  body = {
      'property': mod.PROPERTY,
      'clause': viol['clause'],
      'details': viol.get('details', {}),
      'seed': seed,
      'run_index': idx,
      'tape': values,
      'case': sample,
      'repo_head': head,
      'repo_dirty': dirty,
  }
  if extra:
    body.update(extra)
  name = '%s_%s_%s.json' % (mod.PROPERTY, viol['clause'].replace('/', '_')[:40],
                            hashlib.sha1(json.dumps(values).encode()).hexdigest()[:10])
  path = os.path.join(REPLAY_DIR, name)
  with open(path, 'w') as f:
    json.dump(body, f, indent=1, default=str)
  return path


def write_evidence(mod, tier, seed, agg, wall, nviol, known_seen, abns, extra=None):
  os.makedirs(EVIDENCE_DIR, exist_ok=True)
  runs = max(agg.runs, 0)
  hours = max(wall, 1e-9) / 3600.0
  cov = {
      'evaluations': runs,
      'distinct_nontrivial': len(agg.digests),
      'rule': mod.RULE,
      'samples': agg.samples[:3] if agg.samples else [{'note': 'no nontrivial sample'}],
      'nontrivial_runs': agg.nontrivial,
      'runs_per_hour': int(runs / hours),
      'seeds_per_hour': int(runs / hours),
      'simulated_seconds': round(agg.sim_s, 3),
      'line_steps': agg.steps,
      'context_switches': agg.switches,
      'forced_preemptions': agg.preempts,
      'distinct_schedules': len(agg.scheds),
      'distinct_measure': 'distinct_nontrivial = distinct event-log digests among runs '
                          'that are non-trivial by the rule; distinct_schedules = distinct '
                          'hashes of the (from,to,step) context-switch sequence',
      'faults_fired': dict(sorted(agg.faults.items())),
      'counts': dict(sorted(agg.counts.items())),
      'reach_probes': dict(sorted(agg.probes.items())),
      'probes_at_zero': sorted(k for k in getattr(mod, 'EXPECTED_PROBES', [])
                               if not agg.probes.get(k)),
      'components': mod.COMPONENTS,
      'known_findings_seen': known_seen,
      'abnormal_runs': agg.abnormal,
      'harness_errors': [a[1][:300] for a in abns[:5]],
      'worker_respawns': getattr(agg, 'respawns', 0),
      'exhaustive': False,
  }
  if extra:
    cov.update(extra)
  ev = {
      'property_id': mod.PROPERTY,
      'tier': tier,
      'seed': seed,
      'level': mod.LEVEL,
      'coverage': cov,
      'assumptions': mod.ASSUMPTIONS,
      'wall_s': round(wall, 2),
      'violations': nviol,
  }
  path = os.path.join(EVIDENCE_DIR, '%s.json' % mod.PROPERTY)
  tmp = path + '.tmp'
  with open(tmp, 'w') as f:
    json.dump(ev, f, indent=1, default=str)
  os.replace(tmp, path)
  return path


# ----------------------------------------------------------------------- main
def do_replay(mod, path):
  with open(path) as f:
    body = json.load(f)
  known = load_known(mod.PROPERTY)
  history = [(h['seed'], h['run_index']) for h in body.get('history') or []]
  res = run_tape_forked(mod, body['tape'], 120, history)
  if res is None:
    print('HARNESS-ERROR property=%s replay produced no result' % mod.PROPERTY)
    return 2
  for v in res.get('violations', []):
    if v['clause'] == body['clause']:
      k = match_known(known, v)
      if k is not None:
        print('KNOWN-FINDING: property=%s %s' % (mod.PROPERTY, k['id']))
        return 0
      print('replayed clause=%s details=%s' % (v['clause'], json.dumps(v.get('details', {}), default=str)[:1500]))
      same = (res.get('digest') == body.get('digest')) if body.get('digest') else True
      print('digest_match=%s' % same)
      print('VIOLATION property=%s replay=%s' % (mod.PROPERTY, path))
      return 1
  if res.get('abnormal'):
    print('HARNESS-ERROR property=%s %s' % (mod.PROPERTY, res['abnormal'][:500]))
    return 2
  print('replay did not reproduce clause %s (violations now: %s)' % (
      body['clause'], [v['clause'] for v in res.get('violations', [])]))
  return 0


def warm_up(mod):
  """A few throw-away runs so that one-time initialisations (module caches, lazily created
  locks, linecache...) have happened before the first recorded run - in search workers, in the
  minimiser and in replay processes alike."""
  n = getattr(mod, 'WARMUP', 0)
  for i in range(n):
    tp = tape_mod.Tape(tape_mod.derive_seed('warmup', mod.PROPERTY, i))
    run_guarded(mod, tp, 120)


def main(mod, argv):
  import argparse
  ap = argparse.ArgumentParser()
  ap.add_argument('--tier', default=os.environ.get('VERIF_TIER') or 'quick')
  ap.add_argument('--replay')
  ap.add_argument('--budget', type=float)
  ap.add_argument('--runs', type=int)
  ap.add_argument('--jobs', type=int, default=int(os.environ.get('VERIF_JOBS') or 16))
  ap.add_argument('--index', type=int, help='run a single run index in-process and print it')
  ap.add_argument('--no-minimise', action='store_true')
  ap.add_argument('--survey', action='store_true', help='do not stop at violations; print clusters of (clause, details) and exit')
  args = ap.parse_args(argv)
  tier = args.tier if args.tier in ('quick', 'thorough') else 'quick'
  seed = int(os.environ.get('VERIF_SEED') or 0)
  print('VERIF_SEED=%d property=%s tier=%s' % (seed, mod.PROPERTY, tier))
  sys.stdout.flush()
  mod.setup()
  warm_up(mod)
  if args.replay:
    return do_replay(mod, args.replay)
  if args.index is not None:
    tp = tape_mod.Tape(tape_mod.derive_seed(seed, mod.PROPERTY, args.index))
    res = run_guarded(mod, tp)
    print(json.dumps(res, indent=1, default=str)[:20000])
    return 1 if res.get('violations') else 0
  cfg = mod.QUICK if tier == 'quick' else mod.THOROUGH
  budget = args.budget or float(os.environ.get('VERIF_BUDGET_S') or cfg['budget_s'])
  max_runs = args.runs if args.runs is not None else cfg.get('max_runs')
  known = load_known(mod.PROPERTY)
  if args.survey:
    agg, viols, abns, wall = search(mod, seed, budget, max_runs, args.jobs, stop_after_viol=10 ** 9)
    clusters = {}
    for item in viols:
      for v in item['violations']:
        det = v.get('details', {})
        key = (v['clause'], json.dumps({k: det[k] for k in sorted(det) if isinstance(det[k], (bool, str, type(None))) and k not in ('info', 'msg', 'phase', 'started', 'still_running')}, sort_keys=True))
        c = clusters.setdefault(key, [0, item['idx'], match_known(known, v) is not None])
        c[0] += 1
    for key in sorted(clusters, key=lambda k: -clusters[k][0]):
      print('%6d  %s%s  %s   (e.g. run index %d)' % (clusters[key][0], 'KNOWN ' if clusters[key][2] else '', key[0], key[1], clusters[key][1]))
    print('runs=%d wall=%.1fs abnormal=%s harness=%s' % (agg.runs, wall, agg.abnormal, [a[1][:200] for a in abns[:3]]))
    return 0
  agg, viols, abns, wall = search(mod, seed, budget, max_runs, args.jobs)
  extra = None
  post = getattr(mod, 'post_search', None)
  if post is not None:
    extra = post(agg)

  known_seen = {}
  unknown = []
  for item in viols:
    for v in item['violations']:
      k = match_known(known, v)
      if k is not None:
        known_seen[k['id']] = known_seen.get(k['id'], 0) + 1
      else:
        unknown.append((item, v))
  for kid in sorted(known_seen):
    kk = [k for k in known if k['id'] == kid][0]
    print('KNOWN-FINDING: property=%s %s: %s (seen in %d runs)' % (
        mod.PROPERTY, kid, kk.get('what', ''), known_seen[kid]))

  rc = 0
  reported = set()
  replay_paths = []
  for item, v in unknown:
    if v['clause'] in reported:
      continue
    reported.add(v['clause'])
    values = item['tape']
    ncand = 0
    history = None
    # does the run reproduce on its own in a fresh process?  If not it depends on what earlier
    # runs of the same worker process left behind: replay those runs first, then shrink that list.
    alone = _same_violation(run_tape_forked(mod, values, 60), v['clause'], known) is not None
    if not alone and item.get('hist'):
      full = [(seed, i) for i in item['hist']]
      if _same_violation(run_tape_forked(mod, values, 120, full), v['clause'], known) is not None:
        history = full
        if not args.no_minimise:
          history, nh = minimise_history(mod, values, v['clause'], known, full, budget_s=cfg.get('minimise_s', 60))
          ncand += nh
    if not args.no_minimise and (alone or history is not None):
      try:
        values, nc = minimise(mod, values, v['clause'], known,
                              budget_s=cfg.get('minimise_s', 60), max_cands=600 if alone else 120, history=history)
        ncand += nc
      except Exception:  # pylint: disable=broad-except
        traceback.print_exc()
        values = item['tape']
    final = run_tape_forked(mod, values, 60, history)
    vv = _same_violation(final, v['clause'], known) or v
    extra_r = {'digest': (final or {}).get('digest'), 'original_tape_len': len(item['tape']),
               'minimised_tape_len': len(values), 'minimise_candidates': ncand}
    if history is not None:
      extra_r['history'] = [{'seed': hs, 'run_index': hi} for (hs, hi) in history]
      extra_r['history_note'] = ('cross-run violation: the earlier runs listed in "history" are executed first in the '
                                 'same process (tapes derived from seed/property/run_index), then "tape"')
    path = write_replay(mod, values, vv, seed, item['idx'], (final or {}).get('sample') or item.get('sample'), extra_r)
    # verify in a fresh interpreter
    try:
      p = subprocess.run([sys.executable, os.path.join(VERIF, 'check'), mod.PROPERTY, '--replay', path],
                         capture_output=True, timeout=300)
      verified = (p.returncode == 1 and b'VIOLATION' in p.stdout)
    except Exception:  # pylint: disable=broad-except
      verified = False
    print('violation clause=%s details=%s' % (vv['clause'], json.dumps(vv.get('details', {}), default=str)[:1200]))
    print('replay_verified_in_fresh_process=%s tape_len=%d (from %d, %d candidates)%s' % (
        verified, len(values), len(item['tape']), ncand,
        (' after %d earlier run(s) in the same process' % len(history)) if history is not None else ''))
    print('VIOLATION property=%s replay=%s' % (mod.PROPERTY, path))
    replay_paths.append(path)
    rc = 1

  nviol = len(reported)
  write_evidence(mod, tier, seed, agg, wall, nviol, known_seen, abns, extra)
  hard = [a for a in abns]
  print('runs=%d nontrivial=%d distinct=%d schedules=%d wall=%.1fs sim_s=%.1f faults=%s' % (
      agg.runs, agg.nontrivial, len(agg.digests), len(agg.scheds), wall, agg.sim_s,
      json.dumps(dict(sorted(agg.faults.items())))))
  zero = sorted(k for k in getattr(mod, 'EXPECTED_PROBES', []) if not agg.probes.get(k))
  if zero:
    print('WARNING reach probes at zero: %s' % zero)
  if rc == 0 and hard:
    for idx, msg in hard[:5]:
      print('HARNESS-ERROR property=%s run_index=%s %s' % (mod.PROPERTY, idx, msg[:800]))
    return 2
  if rc == 0 and agg.runs == 0:
    print('HARNESS-ERROR property=%s no runs completed' % mod.PROPERTY)
    return 2
  return rc
