"""SimFS: an in-memory file system with numbered operations, injectable errors and
process-kill crash points (C17).

Model: `files` maps path -> bytes that the *operating system* has (they survive a
process kill); an open handle keeps a user-space buffer that reaches the OS only on
flush/close or when it overflows (so "rename before close" is visible as a truncated
file).  rename/move within the one simulated file system is atomic.  After a crash
every further operation raises SimCrash without touching the image - `finally:` blocks
that run while the exception unwinds cannot repair the disk, exactly as they could not
after kill -9.
"""
import errno
import io


class SimCrash(BaseException):
  """The process was killed at a file-system operation."""


class Fault(object):

  def __init__(self, step, kind, torn=0.5, err=errno.ENOSPC):
    self.step = step      # 1-based index of the FS operation the fault hits
    self.kind = kind      # 'error' | 'crash_before' | 'crash_after' | 'crash_torn'
    self.torn = torn      # fraction of a write that reaches the OS (crash_torn / error)
    self.err = err


class SimFS(object):

  def __init__(self, bufsize=64):
    self.files = {}
    self.step = 0
    self.ops = []          # (step, op, detail)
    self.fault = None
    self.crashed = False
    self.fired = None
    self.tmp_counter = 0
    self.bufsize = bufsize
    self.open_handles = []

  # ------------------------------------------------------------------ core
  def _op(self, op, detail=''):
    """Counts one FS operation; returns the fault that hits it (or None)."""
    if self.crashed:
      raise SimCrash('process is dead')
    self.step += 1
    self.ops.append((self.step, op, detail))
    f = self.fault
    if f is not None and f.step == self.step:
      self.fired = (self.step, op, f.kind)
      return f
    return None

  def _crash(self):
    self.crashed = True
    raise SimCrash('killed at FS step %d' % self.step)

  def snapshot(self):
    return dict((k, bytes(v)) for k, v in self.files.items())

  # ------------------------------------------------------------- operations
  def create_temp(self, prefix='/tmp/tmp'):
    f = self._op('create_temp')
    if f is not None:
      if f.kind == 'error':
        raise OSError(f.err, 'simulated error creating temp file')
      if f.kind == 'crash_before':
        self._crash()
    self.tmp_counter += 1
    path = '%s%04d' % (prefix, self.tmp_counter)
    self.files[path] = bytearray()
    if f is not None and f.kind in ('crash_after', 'crash_torn'):
      self._crash()
    return path

  def os_write(self, path, data, raw=False):
    """A write reaching the OS (the flush of a user-space buffer, or - raw - one write(2) of an
    unbuffered handle: when only part of the data fits, write(2) reports the short count and no error;
    a buffered writer retries the rest and so meets the error)."""
    f = self._op('write', '%s+%d' % (path, len(data)))
    if raw and f is not None and f.kind == 'error' and int(len(data) * f.torn) > 0:
      n = int(len(data) * f.torn)
      if path in self.files:
        self.files[path] += data[:n]
      self.short_writes = getattr(self, 'short_writes', 0) + 1
      return n
    if f is not None:
      if f.kind == 'crash_before':
        self._crash()
      if f.kind == 'crash_torn':
        n = int(len(data) * f.torn)
        if path in self.files:
          self.files[path] += data[:n]
        self._crash()
      if f.kind == 'error':
        n = int(len(data) * f.torn)
        if path in self.files:
          self.files[path] += data[:n]
        raise OSError(f.err, 'simulated write error')
    if path not in self.files:
      # unlinked while open: data goes nowhere visible
      pass
    else:
      self.files[path] += data
    if f is not None and f.kind == 'crash_after':
      self._crash()
    return len(data)

  def fsync(self, path):
    f = self._op('fsync', path)
    if f is not None:
      if f.kind == 'error':
        raise OSError(errno.EIO, 'simulated fsync error')
      self._crash()

  def rename(self, src, dst):
    f = self._op('rename', '%s->%s' % (src, dst))
    if f is not None:
      if f.kind == 'error':
        raise OSError(f.err, 'simulated rename error')
      if f.kind == 'crash_before':
        self._crash()
    if src not in self.files:
      raise FileNotFoundError(errno.ENOENT, 'No such file', src)
    self.files[dst] = self.files.pop(src)
    if f is not None and f.kind in ('crash_after', 'crash_torn'):
      self._crash()

  def remove(self, path):
    f = self._op('remove', path)
    if f is not None:
      if f.kind == 'error':
        raise OSError(errno.EIO, 'simulated remove error')
      if f.kind == 'crash_before':
        self._crash()
    if path not in self.files:
      raise FileNotFoundError(errno.ENOENT, 'No such file', path)
    del self.files[path]
    if f is not None and f.kind in ('crash_after', 'crash_torn'):
      self._crash()

  def open(self, path, mode='r'):
    if self.crashed:
      raise SimCrash('process is dead')
    if 'w' in mode:
      f = self._op('open_w', path)
      if f is not None:
        if f.kind == 'error':
          raise OSError(f.err, 'simulated open error')
        if f.kind == 'crash_before':
          self._crash()
      self.files[path] = bytearray()
      if f is not None and f.kind in ('crash_after', 'crash_torn'):
        self._crash()
    elif path not in self.files:
      raise FileNotFoundError(errno.ENOENT, 'No such file', path)
    h = SimFile(self, path, mode)
    self.open_handles.append(h)
    return h


class SimFile(object):
  """A buffered file handle on a SimFS path."""

  def __init__(self, fs, path, mode, unbuffered=False):
    self.fs = fs
    self.name = path
    self.mode = mode
    self.unbuffered = unbuffered
    self.buf = bytearray()
    self.closed = False
    self.text = 'b' not in mode

  def write(self, data):
    if self.closed:
      raise ValueError('I/O operation on closed file.')
    if self.fs.crashed:
      raise SimCrash('process is dead')
    if isinstance(data, str):
      if not self.text:
        raise TypeError("a bytes-like object is required, not 'str'")
      raw = data.encode()
    else:
      if self.text:
        raise TypeError('write() argument must be str, not %s' % type(data).__name__)
      if not isinstance(data, (bytes, bytearray, memoryview)):
        raise TypeError("a bytes-like object is required, not '%s'" % type(data).__name__)
      raw = bytes(data)
    if self.unbuffered:
      # io.FileIO: one write(2) per call, the count it accepted is returned
      return self.fs.os_write(self.name, raw, raw=True)
    self.buf += raw
    if len(self.buf) >= self.fs.bufsize:
      self._flush()
    return len(data)

  def _flush(self):
    if self.buf:
      data = bytes(self.buf)
      # the buffer is handed to the OS in one write; on error it is dropped
      self.buf = bytearray()
      self.fs.os_write(self.name, data)

  def flush(self):
    if self.closed:
      raise ValueError('I/O operation on closed file.')
    self._flush()

  def fileno(self):
    return FileNo(self)

  def close(self):
    if self.closed:
      return
    if self.fs.crashed:
      raise SimCrash('process is dead')
    try:
      self._flush()
    finally:
      # like io: the handle is closed even if the final flush failed
      self.closed = True
      f = self.fs._op('close', self.name)
      if f is not None and f.kind != 'error':
        self.fs._crash()

  def __enter__(self):
    return self

  def __exit__(self, *a):
    self.close()

  def read(self):
    return bytes(self.fs.files[self.name])


class FileNo(object):

  def __init__(self, f):
    self.f = f


# --------------------------------------------------------------- module facades
class TempfileFacade(object):
  """Stands in for `tempfile` inside the modules under test."""

  def __init__(self, fs):
    self.fs = fs

  def NamedTemporaryFile(self, mode='w+b', delete=True, **kw):  # pylint: disable=invalid-name
    path = self.fs.create_temp()
    h = SimFile(self.fs, path, 'wb' if 'b' in mode else 'w', unbuffered=(kw.get('buffering', -1) == 0))
    self.fs.open_handles.append(h)
    return h


class ShutilFacade(object):

  def __init__(self, fs):
    self.fs = fs

  def move(self, src, dst):
    # same file system: shutil.move is os.rename
    self.fs.rename(src, dst)
    return dst


class OsFacade(object):
  """Stands in for `os` inside openhtf.util.atomic_write (only what it uses)."""

  def __init__(self, fs, real_os):
    self.fs = fs
    self._real = real_os
    self.path = real_os.path

  def rename(self, src, dst):
    self.fs.rename(src, dst)

  def remove(self, path):
    self.fs.remove(path)

  def fsync(self, fileno):
    if isinstance(fileno, FileNo):
      self.fs.fsync(fileno.f.name)
    else:
      raise OSError(errno.EBADF, 'fsync on an unmodelled descriptor')

  def __getattr__(self, name):
    raise AttributeError('os.%s is not modelled by SimFS (harness error)' % name)
