"""The choice tape: the only source of nondeterminism in a simulated run.

Search mode draws from random.Random(seed) and records every value; replay mode
reads recorded values back (value % n; 0 once the tape is exhausted), so any
list of ints is a valid tape - which is what makes generic shrinking possible.
Zero always means the simplest choice (no switch, first option, no fault).
"""
import hashlib
import random


def derive_seed(*parts):
  h = hashlib.sha256(repr(parts).encode()).digest()
  return int.from_bytes(h[:8], 'big')


class Tape(object):

  def __init__(self, seed=None, values=None):
    self.seed = seed
    self.replay = values is not None
    self.values = list(values) if values is not None else None
    self.rng = random.Random(seed) if values is None else None
    self.rec = []
    self.pos = 0
    self.mismatch = 0     # recorded value did not fit the requested range
    self.exhausted = 0    # draws past the end of a replayed tape

  def draw(self, n, tag=None):
    """An int in [0, n)."""
    if n <= 1:
      return 0
    if self.replay:
      if self.pos < len(self.values):
        v = self.values[self.pos]
        if v >= n or v < 0:
          self.mismatch += 1
          v = v % n
      else:
        self.exhausted += 1
        v = 0
      self.pos += 1
    else:
      v = self.rng.randrange(n)
    self.rec.append(v)
    return v

  def chance(self, permille, tag=None):
    """True with probability permille/1000; 0 on the tape means False."""
    if permille <= 0:
      return False
    return self.draw(1000, tag) >= 1000 - permille

  def pick(self, seq, tag=None):
    return seq[self.draw(len(seq), tag)]

  def weighted(self, pairs, tag=None):
    """pairs: [(weight, value)...]; the first entry is the 'zero' choice."""
    total = sum(w for w, _ in pairs)
    v = self.draw(total, tag)
    for w, val in pairs:
      if v < w:
        return val
      v -= w
    return pairs[-1][1]

  def recorded(self):
    return list(self.rec)
