"""Process preparation shared by every check: seams, stubs, import path."""
import gc
import os
import sys
import types

REPO = os.environ.get('VERIF_REPO') or '/repo'
VERIF = os.path.dirname(os.path.dirname(os.path.abspath(__file__)))
TRACE_PREFIXES = (REPO.rstrip('/') + '/openhtf/', VERIF + '/workloads/')


def prepare():
  from simkit import core
  core.install()
  # openhtf parses sys.argv in Test.configure().
  sys.argv = [sys.argv[0]]
  os.environ['OPENHTF_VERIF'] = '1'
  if REPO not in sys.path:
    sys.path.insert(0, REPO)
  # Import-only stubs for packages absent from the sandbox (USB stack).
  if 'libusb1' not in sys.modules:
    m = types.ModuleType('libusb1')
    m.LIBUSB_ERROR_TIMEOUT = -7

    class USBError(Exception):

      def __init__(self, value=None):
        super(USBError, self).__init__(value)
        self.value = value

    m.USBError = USBError
    sys.modules['libusb1'] = m
    sys.modules['usb1'] = types.ModuleType('usb1')
    mc = types.ModuleType('M2Crypto')
    mc.RSA = types.ModuleType('M2Crypto.RSA')
    sys.modules['M2Crypto'] = mc
    sys.modules['M2Crypto.RSA'] = mc.RSA
  # Deterministic ids that appear in logger names / uids.
  import uuid
  counter = [0]

  class _FakeUuid(object):

    def __init__(self, n):
      self.hex = '%016x%016x' % (n, n)

    def __str__(self):
      return self.hex

  def fake_uuid4():
    counter[0] += 1
    return _FakeUuid(counter[0])

  uuid.uuid4 = fake_uuid4
  uuid._verif_counter = counter
  os.getpid = lambda: 4242


def import_openhtf():
  import openhtf  # pylint: disable=g-import-not-at-top
  from openhtf.util import threads
  from simkit import core
  threads.ctypes = core.CtypesFacade
  from openhtf.util import console_output
  console_output.CLI_QUIET = True
  from openhtf.util import logs as _logs
  _logs.configure_logging()   # (Test.configure() does this; the USB checks create no Test)
  import logging
  # a logging handler that raises would print to stderr; checks observe lost messages themselves
  logging.raiseExceptions = False
  # exceptions in __del__ of half-constructed objects (a kill can land inside a constructor)
  sys.unraisablehook = lambda *a: None
  return openhtf


def hygiene():
  """Return the process to a clean state between runs; True if it was clean."""
  import logging
  clean = True
  try:
    from openhtf.util import logs
    h = logging.getLogger(logs.LOGGER_PREFIX)
    for x in list(h.handlers):
      if isinstance(x, logs.RecordHandler):
        h.handlers.remove(x)
        clean = False
    from openhtf.core import test_descriptor
    if len(test_descriptor.Test.TEST_INSTANCES):
      clean = False
      for k in list(test_descriptor.Test.TEST_INSTANCES.keys()):
        try:
          del test_descriptor.Test.TEST_INSTANCES[k]
        except KeyError:
          pass
    test_descriptor.Test.HANDLED_SIGINT_ONCE = False
  except ImportError:
    pass
  # logging caches isEnabledFor() per logger: a cold cache takes the module lock
  # (a scheduling point), a warm one does not - start every run cold
  logging.Logger.manager._clear_cache()  # pylint: disable=protected-access
  import uuid
  if hasattr(uuid, '_verif_counter'):
    uuid._verif_counter[0] = 0
  from simkit import core
  core._event_serial[0] = 0
  return clean


class NoGC(object):

  _n = [0]

  def __init__(self, every=1):
    self.every = every

  def __enter__(self):
    self._n[0] += 1
    if self._n[0] % self.every == 0:
      gc.collect()
    gc.disable()

  def __exit__(self, *a):
    gc.enable()
