"""simkit: deterministic simulation kit for the /verif checks of google/openhtf."""
