"""Deterministic baton-passing scheduler for real Python threads.

Only the thread holding the baton runs; every other simulated thread is parked
on a private real lock.  Who runs next, when a pre-emption happens and how long
anything takes is decided by the choice tape (simkit.tape).  Time is virtual:
it advances only when nothing is runnable.

install() must run before `logging`, `queue` or `openhtf` are imported.
"""
import _thread
import hashlib
import heapq
import math
import sys
import threading
import time as _time_mod

_real_allocate = _thread.allocate_lock
_real_get_ident = _thread.get_ident
_orig_thread_start = threading.Thread.start
_orig_thread_join = threading.Thread.join
_orig_thread_is_alive = threading.Thread.is_alive
_real_sleep = _time_mod.sleep
_real_time = _time_mod.time
_real_monotonic = _time_mod.monotonic
_OrigEvent = threading.Event

SIM = None  # the active simulation, if any
INSTALLED = False
T0 = 1000.0  # virtual epoch


class SimShutdown(BaseException):
  """Raised inside abandoned threads to unwind them at the end of a run."""


class SimAbort(Exception):
  """Base of abnormal simulation ends (reported by the harness)."""


class Deadlock(SimAbort):
  pass


class StepLimit(SimAbort):
  pass


class Hang(SimAbort):
  """Virtual time exceeded the liveness bound of the run."""


class _FrameTracer(object):
  """Local trace function of one frame; one step per *change* of line."""
  __slots__ = ('sim', 'last')

  def __init__(self, sim):
    self.sim = sim
    self.last = -1

  def __call__(self, frame, event, arg):
    if event == 'line':
      ln = frame.f_lineno
      last = self.last
      if ln != last:
        self.last = ln
        sim = self.sim
        # Leaving a `with` block re-announces the `with` line just before __exit__ is
        # called, and entering one announces the first body line right after __enter__
        # returned.  CPython has no eval-breaker check at either place (thread switches,
        # async exceptions and signal handlers happen after calls, at loop back-edges and
        # at function entry), and an exception raised *from a trace function* there would
        # even be attributed to the `with` line, outside the protected range, leaking the
        # lock.  Those two events are therefore not steps at all.
        fn = frame.f_code.co_filename
        if ((ln < last and _is_with_line(fn, ln)) or
            (ln > last and last > 0 and _is_with_line(fn, last))):
          return self
        sim._local_trace(frame, event, arg)
    elif event == 'return':
      sim = self.sim
      if sim.watch_returns and frame.f_code.co_name in sim.watch_returns and not sim.shutting_down:
        sim.event('leave', frame.f_code.co_name, frame.f_code.co_filename.rsplit('/', 1)[-1])
    return self


_WITH_LINES = {}


def _is_with_line(filename, lineno):
  key = (filename, lineno)
  v = _WITH_LINES.get(key)
  if v is None:
    import linecache
    src = linecache.getline(filename, lineno).lstrip()
    v = _WITH_LINES[key] = src.startswith('with ') or src.startswith('async with ')
  return v


class SimThread(object):
  __slots__ = ('sid', 'name', 'thread', 'baton', 'state', 'wait_obj',
               'deadline', 'timed_out', 'finished', 'pending_exc',
               'pending_delay', 'native', 'ident', 'joiners', 'is_main',
               'prio', 'wait_what', 'exc_info', 'steps')

  def __init__(self, sid, name, thread):
    self.sid = sid
    self.name = name
    self.thread = thread
    self.baton = _real_allocate()
    self.baton.acquire()
    self.state = 'runnable'  # runnable | blocked | finished
    self.wait_obj = None
    self.wait_what = None
    self.deadline = None
    self.timed_out = False
    self.finished = False
    self.pending_exc = None
    self.pending_delay = 0
    self.native = 0
    self.ident = None
    self.joiners = []
    self.is_main = False
    self.prio = 0
    self.exc_info = None
    self.steps = 0


def cur():
  s = SIM
  if s is None:
    return None
  st = s.by_ident.get(_real_get_ident())
  if st is None or st.native:
    return None
  return st


class Knobs(object):
  """Per-run scheduling knobs (drawn from the tape by the workloads)."""

  def __init__(self, p_sync=150, gap_mean=0, hot_span=0, max_steps=2000000,
               max_time=None, async_delay_max=0, pct=False):
    self.p_sync = p_sync          # per-mille probability of a switch at a sync point
    self.gap_mean = gap_mean      # mean line steps between forced pre-emptions; 0 = none
    self.hot_span = hot_span      # after a hot event a pre-emption lands within this many steps
    self.max_steps = max_steps
    self.max_time = max_time      # virtual seconds after T0; None = unbounded
    self.async_delay_max = async_delay_max
    self.pct = pct

  def as_dict(self):
    return dict(self.__dict__)


class Sim(object):

  def __init__(self, tape, trace_prefixes=(), knobs=None):
    self.tape = tape
    self.knobs = knobs or Knobs()
    self.by_ident = {}
    self.threads = []
    self.now = T0
    self.timers = []  # heap of (deadline, seq, st)
    self.tseq = 0
    self.log = []
    self.eseq = 0
    self.steps = 0
    self.trace_prefixes = tuple(trace_prefixes)
    self._code_cache = {}
    self.countdown = self._gap()
    self.switches = 0
    self.preemptions = 0
    self.shutting_down = False
    self.failed = None  # None | 'deadlock' | 'steplimit' | 'hang'
    self.failed_info = None
    self.any_pending = 0
    self.triggers = {}  # step -> [callables]
    self.next_trigger = None
    self.sigint_pending = 0
    self.sigint_sites = []
    self.sched = hashlib.sha1()
    self.counters = {}
    self.main = None
    self.on_event = None  # optional callback(kind, args) run under the baton
    self.prefer = None    # thread to pick at the next forced pre-emption
    self.no_raise_here = False
    self.sigint_info = None  # optional callable: extra facts logged when a SIGINT is delivered
    self.watch_calls = frozenset()  # function names whose entry is logged as ('enter', name)
    self.watch_returns = frozenset()  # function names whose return / unwinding is logged as ('leave', name)

  # ---------------------------------------------------------------- tape use
  def _gap(self):
    gm = self.knobs.gap_mean
    if not gm:
      return 1 << 60
    v = self.tape.draw(4096, 'gap')
    if v == 0:
      return 1 << 60
    return 1 + int(-gm * math.log(v / 4096.0))

  def count(self, key, n=1):
    self.counters[key] = self.counters.get(key, 0) + n

  # --------------------------------------------------------------- lifecycle
  def begin(self):
    global SIM
    assert SIM is None, 'simulation already active'
    assert INSTALLED, 'simkit.core.install() was not called'
    SIM = self
    st = SimThread(0, 'main', threading.current_thread())
    st.ident = _real_get_ident()
    st.is_main = True
    self.by_ident[st.ident] = st
    self.threads.append(st)
    self.main = st
    sys.settrace(self._global_trace)

  def end(self):
    """Unwind every leftover thread deterministically, one at a time."""
    global SIM
    sys.settrace(None)
    self.shutting_down = True
    me = self.main
    for st in list(self.threads):
      if st is me or st.finished:
        continue
      guard = 0
      while not st.finished:
        st.state = 'runnable'
        self._unwait(st)
        self._switch_to(st, me)
        guard += 1
        if guard > 10000:
          self.failed = self.failed or 'unwind'
          break
    SIM = None

  def event(self, kind, *args):
    self.eseq += 1
    me = self.by_ident.get(_real_get_ident())
    rec = (self.eseq, round(self.now - T0, 6), me.sid if me else -1, kind) + args
    self.log.append(rec)
    cb = self.on_event
    if cb is not None:
      cb(rec)
    return self.eseq

  def digest(self):
    return hashlib.sha1(repr(self.log).encode()).hexdigest()

  def sched_digest(self):
    return self.sched.hexdigest()

  # -------------------------------------------------------------- scheduling
  def _runnable(self):
    return [t for t in self.threads if t.state == 'runnable' and not t.finished]

  def _switch_to(self, nxt, me):
    self.switches += 1
    if not self.shutting_down:
      self.sched.update(b'%d>%d@%d;' % (me.sid if me else -1, nxt.sid, self.steps))
    nxt.baton.release()
    if me is not None and not me.finished:
      me.baton.acquire()

  def _fire_timers(self):
    while self.timers and self.timers[0][0] <= self.now:
      deadline, _, st = heapq.heappop(self.timers)
      if st.state == 'blocked' and st.deadline == deadline:
        st.timed_out = True
        st.state = 'runnable'
        self._unwait(st)

  def _pick_next(self, me, staying, preempt=False):
    """Choose the next thread to run.

    staying: `me` is currently running and may simply continue (sync point or
    pre-emption); otherwise `me` has just blocked or exited and competes only
    if a timer made it runnable again.
    """
    while True:
      self._fire_timers()
      cands = self._runnable()
      if staying and me is not None and me.state == 'runnable' and not me.finished:
        others = [t for t in cands if t is not me]
        if not others:
          return me
        if preempt:
          pf = self.prefer
          if pf is not None:
            self.prefer = None
            if pf in others:
              return pf
          return others[self.tape.draw(len(others), 'pre')]
        # sync point: 0 keeps running (so that an all-zero tape is the
        # sequential schedule).
        if self.tape.draw(1000, 'sw') < 1000 - self.knobs.p_sync:
          return me
        return others[self.tape.draw(len(others), 'pick')]
      if cands:
        if len(cands) == 1:
          return cands[0]
        return cands[self.tape.draw(len(cands), 'pick')]
      # nobody runnable: advance virtual time to the next timer
      while self.timers:
        deadline, _, st = self.timers[0]
        if st.state != 'blocked' or st.deadline != deadline:
          heapq.heappop(self.timers)
          continue
        break
      if not self.timers:
        raise Deadlock(self._describe_blocked())
      deadline = self.timers[0][0]
      mt = self.knobs.max_time
      if mt is not None and deadline - T0 > mt:
        raise Hang('virtual time would pass liveness bound %.3f s: %s' %
                   (mt, self._describe_blocked()))
      self.now = max(self.now, deadline)

  def _describe_blocked(self):
    out = []
    for t in self.threads:
      if t.finished:
        continue
      w = t.wait_obj
      tag = ''
      if t.state == 'blocked' and isinstance(w, SimLock) and w.owner is t:
        tag = ':SELF-DEADLOCK'
      out.append('%d:%s:%s:%s%s' % (t.sid, t.name[:40], t.state, t.wait_what, tag))
    return ' | '.join(out)

  def _unwait(self, st):
    w = st.wait_obj
    if w is not None:
      try:
        w.waiters.remove(st)
      except ValueError:
        pass
      st.wait_obj = None
    st.deadline = None

  def _abnormal(self, me, kind, exc):
    """Record an abnormal end and route control to main for shutdown."""
    if self.failed is None:
      self.failed = kind
      self.failed_info = str(exc)
    self.shutting_down = True

  def yield_point(self, me):
    if self.shutting_down:
      return
    self.rearm()
    nxt = self._pick_next(me, True)
    if nxt is not me:
      self._switch_to(nxt, me)
      self._after_resume(me)

  def _after_resume(self, me):
    if self.shutting_down and not me.is_main:
      raise SimShutdown()

  def block(self, me, wait_obj, timeout, what=None):
    """Block `me` on wait_obj (has .waiters) with optional virtual timeout.

    Returns True if woken, False if timed out.
    """
    if self.shutting_down:
      if me.is_main:
        raise SimAbort('main blocked during shutdown on %s' % (what,))
      raise SimShutdown()
    me.state = 'blocked'
    me.timed_out = False
    me.wait_obj = wait_obj
    me.wait_what = what
    if wait_obj is not None:
      wait_obj.waiters.append(me)
    if timeout is not None:
      me.deadline = self.now + max(0.0, timeout)
      if timeout > 0 and me.deadline <= self.now:
        # a positive wait always moves the clock by at least one representable tick (the clock
        # value is ~1.7e9, so waits below ~0.2 us would otherwise not advance it and a loop that
        # sleeps "the remaining time" would spin for ever at one instant)
        me.deadline = math.nextafter(self.now, math.inf)
      self.tseq += 1
      heapq.heappush(self.timers, (me.deadline, self.tseq, me))
    else:
      me.deadline = None
    try:
      nxt = self._pick_next(me, False)
    except SimAbort as e:
      kind = 'deadlock' if isinstance(e, Deadlock) else 'hang'
      self._abnormal(me, kind, e)
      me.state = 'runnable'
      self._unwait(me)
      if me.is_main:
        raise
      # hand over to main, which will raise from its own block()
      self.main.state = 'runnable'
      self._unwait(self.main)
      self._switch_to(self.main, me)
      raise SimShutdown()
    if nxt is not me:
      self._switch_to(nxt, me)
    me.wait_what = None
    if self.shutting_down:
      if me.is_main:
        if self.failed == 'deadlock':
          raise Deadlock(self.failed_info)
        if self.failed == 'hang':
          raise Hang(self.failed_info)
        if self.failed == 'steplimit':
          raise StepLimit(self.failed_info)
        raise SimAbort('shutdown')
      raise SimShutdown()
    self.rearm()
    return not me.timed_out

  def wake(self, st):
    if st.state == 'blocked':
      st.state = 'runnable'
      self._unwait(st)

  def thread_exit(self, me):
    me.finished = True
    me.state = 'finished'
    self.by_ident.pop(me.ident, None)
    for j in me.joiners:
      self.wake(j)
    me.joiners = []
    if self.shutting_down:
      self.switches += 1
      self.main.baton.release()
      return
    try:
      nxt = self._pick_next(me, False)
    except SimAbort as e:
      kind = 'deadlock' if isinstance(e, Deadlock) else 'hang'
      self._abnormal(me, kind, e)
      self.main.state = 'runnable'
      self._unwait(self.main)
      nxt = self.main
    self.switches += 1
    self.sched.update(b'%d>%d@%d;' % (me.sid, nxt.sid, self.steps))
    nxt.baton.release()

  # ----------------------------------------------------------------- triggers
  def at_step(self, step, fn):
    """Run fn(frame) under the baton when the global line-step count hits step."""
    step = max(int(step), self.steps + 1)
    self.triggers.setdefault(step, []).append(fn)
    if self.next_trigger is None or step < self.next_trigger:
      self.next_trigger = step

  def hot(self, tag=None):
    """A hot event: make a pre-emption land within the next hot_span steps."""
    hs = self.knobs.hot_span
    if hs and not self.shutting_down:
      v = self.tape.draw(hs + 1, 'hot')
      if v:
        self.countdown = min(self.countdown, v)

  # ------------------------------------------------------------------ tracing
  def _global_trace(self, frame, event, arg):
    code = frame.f_code
    c = self._code_cache.get(code)
    if c is None:
      c = code.co_filename.startswith(self.trace_prefixes)
      if c and code.co_name in self.watch_calls:
        c = 2
      self._code_cache[code] = c
    if c:
      if c == 2 and event == 'call' and not self.shutting_down:
        self.event('enter', code.co_name, code.co_filename.rsplit('/', 1)[-1])
      return _FrameTracer(self)
    return None

  def _local_trace(self, frame, event, arg):
    # (called through a per-frame _FrameTracer, which drops repeated events for one line:
    # CPython 3.12 may or may not re-announce a line after a call returns, depending on
    # whether the code object was instrumented before - process history must not matter)
    if event == 'line':
      no_raise = self.no_raise_here  # (per event: other threads overwrite the attribute)
      self.steps += 1
      nt = self.next_trigger
      if nt is not None and self.steps >= nt:
        self._run_triggers(frame)
      if (self.any_pending or self.sigint_pending) and not no_raise:
        me = cur()
        if me is not None:
          if self.sigint_pending and me.is_main:
            self._deliver_sigint(frame, 'line')
          if me.pending_exc is not None:
            if me.pending_delay > 0:
              me.pending_delay -= 1
            else:
              self._raise_pending(me, frame.f_code.co_name)
      self.countdown -= 1
      if self.countdown <= 0:
        self.countdown = self._gap()
        if self.steps > self.knobs.max_steps:
          self._steplimit()
        me = cur()
        if me is not None and not self.shutting_down:
          nxt = self._pick_next(me, True, preempt=True)
          if nxt is not me:
            self.preemptions += 1
            self._switch_to(nxt, me)
            self._after_resume(me)
            if me.pending_exc is not None and me.pending_delay <= 0 and not no_raise:
              self._raise_pending(me, frame.f_code.co_name)
    return None

  def _steplimit(self):
    me = cur()
    self._abnormal(me, 'steplimit', 'step limit %d exceeded' % self.knobs.max_steps)
    if me is not None and me.is_main:
      raise StepLimit(self.failed_info)
    if me is not None:
      self.main.state = 'runnable'
      self._unwait(self.main)
      self._switch_to(self.main, me)
      raise SimShutdown()

  def _run_triggers(self, frame):
    due = sorted(k for k in self.triggers if k <= self.steps)
    for k in due:
      for fn in self.triggers.pop(k):
        fn(frame)
    self.next_trigger = min(self.triggers) if self.triggers else None

  def _raise_pending(self, me, where):
    exc = me.pending_exc
    me.pending_exc = None
    self.any_pending -= 1
    self.event('async_exc_delivered', me.sid, where)
    raise exc

  def rearm(self):
    """Re-install tracing after CPython dropped it (exception from tracer)."""
    if sys.gettrace() is None and not self.shutting_down:
      sys.settrace(self._global_trace)
      f = sys._getframe(1)
      while f is not None:
        if f.f_trace is None:
          tr = self._global_trace(f, 'rearm', None)
          if tr is not None:
            tr.last = f.f_lineno
            f.f_trace = tr
        f = f.f_back

  def deliver_at_sync(self, me):
    if self.sigint_pending and me.is_main:
      self._deliver_sigint(self._site_frame(sys._getframe(1)), 'sync')
    if me.pending_exc is not None:
      # a blocking primitive is a delivery point regardless of the delay knob
      me.pending_delay = 0
      self._raise_pending(me, 'sync')

  def _site_frame(self, f):
    g = f
    while g is not None:
      if self._global_trace(g, 'site', None):
        return g
      g = g.f_back
    return f

  def async_raise(self, ident, exc):
    st = self.by_ident.get(ident)
    if st is None or st.finished:
      return 0
    if st.pending_exc is None:
      self.any_pending += 1
    st.pending_exc = exc
    dm = self.knobs.async_delay_max
    st.pending_delay = self.tape.draw(dm + 1, 'adelay') if dm else 0
    self.event('async_exc_set', st.sid)
    return 1

  # ------------------------------------------------------------------- SIGINT
  def post_sigint(self):
    """Simulate a SIGINT: the Python-level handler runs on the main thread."""
    self.sigint_pending += 1
    m = self.main
    if m.state == 'blocked':
      # CPython wakes the main thread from an interruptible lock wait.
      m.state = 'runnable'
      w = m.wait_obj
      self._unwait(m)
      m.timed_out = False
      m.wait_what = 'sigint-wakeup'

  def _deliver_sigint(self, frame, how):
    import signal
    self.sigint_pending -= 1
    site = frame.f_code.co_name if frame is not None else '?'
    line = frame.f_lineno if frame is not None else 0
    info = self.sigint_info() if self.sigint_info is not None else None
    self.sigint_sites.append((site, line, how, info))
    self.event('sigint_delivered', site, how, info)
    handler = signal.getsignal(signal.SIGINT)
    try:
      handler(signal.SIGINT, frame)
    finally:
      self.event('sigint_handler_done', site)


# ---------------------------------------------------------------- primitives
class SimLock(object):

  def __init__(self):
    self._real = _real_allocate()
    self.owner = None
    self.waiters = []

  def acquire(self, blocking=True, timeout=-1):
    me = cur()
    if me is None:
      if timeout is None or timeout < 0:
        return self._real.acquire(blocking)
      return self._real.acquire(blocking, timeout)
    s = SIM
    s.deliver_at_sync(me)
    s.yield_point(me)
    deadline = None
    if blocking and timeout is not None and timeout >= 0:
      deadline = s.now + timeout
    while self.owner is not None:
      if not blocking:
        return False
      remaining = None
      if deadline is not None:
        remaining = deadline - s.now
        if remaining <= 0:
          return False
      s.block(me, self, remaining, 'lock')
      s.deliver_at_sync(me)
    self.owner = me
    return True

  def release(self):
    me = cur()
    if me is None:
      if self.owner is not None:
        # released by an unmanaged context (shutdown unwinding)
        self.owner = None
        return
      return self._real.release()
    if self.owner is None:
      raise RuntimeError('release unlocked lock')
    self.owner = None
    if self.waiters:
      SIM.wake(self.waiters[0])
    SIM.yield_point(me)

  def locked(self):
    if cur() is None and self.owner is None:
      return self._real.locked()
    return self.owner is not None

  __enter__ = acquire

  def __exit__(self, *a):
    self.release()

  def _at_fork_reinit(self):
    self._real = _real_allocate()
    self.owner = None
    self.waiters = []


class SimRLock(object):

  def __init__(self):
    self._block = SimLock()
    self._owner = None
    self._count = 0

  def acquire(self, blocking=True, timeout=-1):
    me = _real_get_ident()
    if self._owner == me:
      self._count += 1
      return True
    rc = self._block.acquire(blocking, timeout)
    if rc:
      self._owner = me
      self._count = 1
    return rc

  __enter__ = acquire

  def release(self):
    if self._owner != _real_get_ident():
      raise RuntimeError('cannot release un-acquired lock')
    self._count -= 1
    if not self._count:
      self._owner = None
      self._block.release()

  def __exit__(self, *a):
    self.release()

  def locked(self):
    return self._block.locked()

  def _release_save(self):
    count = self._count
    self._count = 0
    owner = self._owner
    self._owner = None
    self._block.release()
    return (count, owner)

  def _acquire_restore(self, state):
    self._block.acquire()
    self._count, self._owner = state

  def _is_owned(self):
    return self._owner == _real_get_ident()

  def _recursion_count(self):
    if self._owner != _real_get_ident():
      return 0
    return self._count

  def _at_fork_reinit(self):
    self._block._at_fork_reinit()
    self._owner = None
    self._count = 0


class Gate(object):
  """A one-shot gate a simulated thread parks on until the harness opens it.

  open() may be called from trigger context (inside the trace function): it
  only flips scheduler state and never yields.
  """

  def __init__(self):
    self.waiters = []
    self.opened = False

  def wait(self):
    me = cur()
    if me is None:
      return
    if not self.opened:
      SIM.block(me, self, None, 'gate')

  def open(self, prefer=True):
    self.opened = True
    s = SIM
    for st in list(self.waiters):
      s.wake(st)
      if prefer:
        s.prefer = st
    if s is not None:
      s.countdown = 0


_event_serial = [0]


class SimEvent(_OrigEvent):
  """threading.Event with a deterministic hash (WeakSet iteration order)."""

  def __init__(self):
    super(SimEvent, self).__init__()
    _event_serial[0] += 1
    self._serial = _event_serial[0]

  def __hash__(self):
    # Hashing happens inside WeakSet.add() / discard(), which are Python-level stdlib code: CPython
    # can switch threads there.  openhtf registers watcher events in a WeakSet *while holding the
    # subscription lock*, so this is the one place where a thread can be pre-empted inside that
    # critical section; stdlib frames are not traced, hence this explicit scheduling point.
    me = cur()
    if me is not None and SIM is not None and not SIM.shutting_down and getattr(SIM, 'hash_yield', True):
      SIM.yield_point(me)
    return self._serial

  def __eq__(self, other):
    return self is other

  def __ne__(self, other):
    return self is not other


def sim_time():
  if cur() is None:
    return _real_time()
  return SIM.now


def sim_monotonic():
  if cur() is None:
    return _real_monotonic()
  return SIM.now


def sim_sleep(secs):
  me = cur()
  if me is None:
    return _real_sleep(secs)
  if secs < 0:
    raise ValueError('sleep length must be non-negative')   # as the real time.sleep
  s = SIM
  s.deliver_at_sync(me)
  s.block(me, None, secs, 'sleep')
  s.deliver_at_sync(me)


def _thread_start(self):
  parent = cur()
  if parent is None:
    return _orig_thread_start(self)
  s = SIM
  st = SimThread(len(s.threads), self.name if isinstance(self.name, str) else '?', self)
  s.threads.append(st)
  self._sim_st = st
  orig_run = self.run

  def run_wrapper():
    st.ident = _real_get_ident()
    s.by_ident[st.ident] = st
    st.baton.acquire()
    sys.settrace(s._global_trace)
    try:
      if s.shutting_down:
        return
      orig_run()
    except SimShutdown:
      pass
    except BaseException:  # pylint: disable=broad-except
      st.exc_info = sys.exc_info()[:2]
      if not s.shutting_down:
        s.event('thread_died', st.sid, type(st.exc_info[1]).__name__,
                str(st.exc_info[1])[:120], st.name[:40])
    finally:
      sys.settrace(None)
      s.thread_exit(st)

  self.run = run_wrapper
  parent.native += 1
  try:
    _orig_thread_start(self)
  finally:
    parent.native -= 1
  s.event('thread_start', st.sid, st.name[:40])
  s.hot('thread_start')
  s.yield_point(parent)


def _thread_join(self, timeout=None):
  me = cur()
  st = getattr(self, '_sim_st', None)
  if me is None or st is None:
    return _orig_thread_join(self, timeout)
  s = SIM
  s.deliver_at_sync(me)
  s.yield_point(me)
  deadline = None if timeout is None else s.now + timeout
  while not st.finished:
    remaining = None
    if deadline is not None:
      remaining = deadline - s.now
      if remaining <= 0:
        return
    st.joiners.append(me)
    try:
      s.block(me, None, remaining, 'join:%d' % st.sid)
    finally:
      if me in st.joiners:
        st.joiners.remove(me)
    s.deliver_at_sync(me)


def _thread_is_alive(self):
  st = getattr(self, '_sim_st', None)
  if st is None or cur() is None:
    return _orig_thread_is_alive(self)
  return not st.finished


class CtypesFacade(object):
  """Stands in for `ctypes` inside openhtf.util.threads."""

  class _PyApi(object):

    @staticmethod
    def PyThreadState_SetAsyncExc(tid, exc):
      tid = getattr(tid, 'value', tid)
      exc = getattr(exc, 'value', exc)
      if SIM is None:
        return 0
      if exc is None:
        return 1
      return SIM.async_raise(tid, exc)

  pythonapi = _PyApi()

  class c_long(object):

    def __init__(self, v):
      self.value = v

  class py_object(object):

    def __init__(self, v):
      self.value = v


def install():
  global INSTALLED
  if INSTALLED:
    return
  for mod in ('logging', 'queue', 'openhtf'):
    assert mod not in sys.modules, '%s imported before simkit.install()' % mod
  threading.Lock = SimLock
  threading._allocate_lock = SimLock
  threading.RLock = SimRLock
  threading._CRLock = None
  threading._PyRLock = SimRLock
  threading.Event = SimEvent
  threading.Thread.start = _thread_start
  threading.Thread.join = _thread_join
  threading.Thread.is_alive = _thread_is_alive
  threading._time = sim_monotonic
  _time_mod.time = sim_time
  _time_mod.monotonic = sim_monotonic
  _time_mod.sleep = sim_sleep
  import queue
  queue.time = sim_monotonic
  INSTALLED = True
