"""W-meas: measurement-history phase bodies, validators and transforms (C06, C10).  Traced."""
import math
import threading

import openhtf as htf
from openhtf.core import measurements as ms
from simkit import core
from workloads import bodies


class ValidatorBoom(Exception):
  pass


class Scripted(object):
  """A custom validator with scripted behaviour (deep-copyable, printable)."""

  def __init__(self, kind, arg=None):
    self.kind = kind
    self.arg = arg

  def __call__(self, value):
    k = self.kind
    if k == 'true':
      return True
    if k == 'false':
      return False
    if k == 'raises':
      raise ValidatorBoom('validator failed on %r' % (value,))
    last = value
    if isinstance(value, list):
      # dimensioned: list of (coords..., value) tuples
      vals = [t[-1] for t in value]
    else:
      vals = [value]
    if k == 'raises_if_gt':
      if any(isinstance(v, (int, float)) and not isinstance(v, bool) and v > self.arg for v in vals):
        raise ValidatorBoom('value too large')
      return True
    if k == 'all_le':
      return all(isinstance(v, (int, float)) and not isinstance(v, bool) and not math.isnan(v) and v <= self.arg
                 for v in vals)
    raise AssertionError(k)

  def __str__(self):
    return 'Scripted(%s, %r)' % (self.kind, self.arg)

  def __eq__(self, other):
    return isinstance(other, Scripted) and (self.kind, self.arg) == (other.kind, other.arg)

  def __hash__(self):
    return hash((self.kind, self.arg))


import enum as _enum


class Color(_enum.Enum):
  """A plain enum measurement value (rendered by name)."""
  RED = 'red'


TRANSFORMS = {
    'x2': lambda v: v * 2 if isinstance(v, (int, float)) and not isinstance(v, bool) else v,
    'str': lambda v: 'T(%s)' % (v,),
}


def apply_transform(kind, v):
  if kind is None:
    return v
  if kind == 'prec1':
    return round(v, ndigits=1)
  return TRANSFORMS[kind](v)


def make_diag_phase(ctx, internal=False, attach_names=(), first_run_only=False):
  """An earlier phase whose diagnoser yields R0 (as a regular or as an internal diagnosis):
  activates conditional validators."""
  # (first_run_only: the result is issued by the first execution of the Test only)
  d = bodies.ScriptedPhaseDiagnoser(ctx, {'name': 'dpre', 'outs': [[[0, 0]], []] if first_run_only else [[[0, 0]]],
                                          'internal': internal})

  def diagphase(test):
    ctx.ev('body_start', 'diagphase', 1)
    # the same attachment names as the measuring phase uses, with other contents: attachment
    # names are unique per phase record only
    for n in attach_names:
      test.attach(n, ('other phase, same name: ' + n).encode())

  return htf.diagnose(d)(diagphase)


def make_meas_phase(ctx, spec, hooks):
  """The phase under test: executes the operation history."""

  def measphase(state):
    test = state.test_api
    ctx.ev('body_start', 'measphase', 1)
    chatter = None
    if spec.get('chatter'):
      # a helper thread of the phase that logs to the same test while the phase works
      def chat():
        for k in range(spec['chatter']):
          test.logger.info('chatter line %d', k)
          core.sim_sleep(0)
      chatter = threading.Thread(target=chat, name='chatter')
      chatter.daemon = True
      chatter.start()
    try:
      return _measphase_ops(state, test)
    finally:
      if chatter is not None:
        chatter.join()

  def _measphase_ops(state, test):
    for i, op in enumerate(spec['ops']):
      kind = op[0]
      try:
        if kind == 'set':
          name = spec['meas'][op[1]]['name']
          test.measurements[name] = hooks['value'](op[2])
          ctx.ev('op_ok', i, kind)
        elif kind == 'setattr':
          name = spec['meas'][op[1]]['name']
          setattr(test.measurements, name, hooks['value'](op[2]))
          ctx.ev('op_ok', i, kind)
        elif kind == 'setdim':
          name = spec['meas'][op[1]]['name']
          test.measurements[name][op[2]] = hooks['value'](op[3])
          ctx.ev('op_ok', i, kind)
        elif kind == 'bad_coords':
          name = spec['meas'][op[1]]['name']
          try:
            test.measurements[name][op[2]] = 1
            ctx.ev('op_not_rejected', i, kind)
          except ms.InvalidDimensionsError:
            ctx.ev('op_rejected', i, kind)
        elif kind == 'undeclared':
          try:
            test.measurements['no_such_measurement'] = 1
            ctx.ev('op_not_rejected', i, kind)
          except ms.NotAMeasurementError:
            ctx.ev('op_rejected', i, kind)
        elif kind == 'dim_no_index':
          name = spec['meas'][op[1]]['name']
          try:
            test.measurements[name] = 3
            ctx.ev('op_not_rejected', i, kind)
          except ms.InvalidDimensionsError:
            ctx.ev('op_rejected', i, kind)
        elif kind == 'attach':
          test.attach(op[1], op[2].encode())
          ctx.ev('op_ok', i, kind)
        elif kind == 'log':
          test.logger.info('meas history log %d', i)
          ctx.ev('op_ok', i, kind)
        elif kind == 'read':
          hooks['read'](state, i)
      except Exception as e:  # pylint: disable=broad-except
        # a validator (scripted or built-in) raised at the assignment: it must surface
        ctx.ev('validator_raised_at_assignment', i, type(e).__name__)
        raise
    ctx.ev('body_end', 'measphase', 1, 'ret:CONTINUE')

  return measphase
