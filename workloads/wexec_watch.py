"""Watcher threads attached to a whole simulated test run (C18 whole-run mode).  Traced."""
from simkit import core


def cwatcher(ctx, test, wid, reg, out, extract):
  """Station-server stand-in: snapshot (serialised at once), stop at COMPLETED, else wait."""
  n = 0
  while True:
    st = test.state
    if st is None:
      if out.get('execute_done'):
        ctx.ev('cwatch_no_state', wid)
        return
      core.sim_sleep(0)
      continue
    try:
      reg[wid] = extract(st.asdict_with_event())
    except RuntimeError as e:
      # "dictionary changed size during iteration": the station server retries
      ctx.ev('cwatch_retry', wid, type(e).__name__)
      core.sim_sleep(0)
      continue
    view, ev = reg[wid]
    n += 1
    ctx.ev('cwatch', wid, view['status'], view['phase'], len(view['meas']), len(view['logs']))
    if view['status'] == 'COMPLETED':
      ctx.ev('cwatch_done', wid, n)
      return
    ev.wait()
