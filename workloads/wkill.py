"""W-kill: micro-scenarios around KillableThread (C12).  Traced line by line."""
from openhtf.util import threads as htf_threads
from simkit import core


class Victim(htf_threads.KillableThread):
  """A killable thread with a scripted body and instrumented handlers."""

  def __init__(self, sim, script):
    super(Victim, self).__init__(name='victim')
    self.daemon = True
    self.sim = sim
    self.script = script
    self.body_exc = None
    self.handler_exc = None

  def _thread_proc(self):
    sim = self.sim
    sim.event('body_start')
    try:
      kind = self.script['body']
      if kind == 'quick':
        x = 0
        for i in range(self.script.get('n', 3)):
          x += i
      elif kind == 'sleep':
        for _ in range(self.script.get('n', 3)):
          core.sim_sleep(self.script.get('d', 0.1))
      elif kind == 'busy':
        x = 0
        for i in range(self.script.get('n', 40)):
          x += i
      elif kind == 'raise':
        raise ValueError('scripted')
    except BaseException as e:  # pylint: disable=broad-except
      self.body_exc = type(e).__name__
      sim.event('body_exc', type(e).__name__)
      raise
    sim.event('body_end')

  def _thread_exception(self, exc_type, exc_val, exc_tb):
    sim = self.sim
    sim.event('handler_exception_start', exc_type.__name__)
    try:
      x = 0
      for i in range(self.script.get('hn', 4)):
        x += i
      if self.script.get('hsleep'):
        core.sim_sleep(self.script['hsleep'])
    except BaseException as e:  # pylint: disable=broad-except
      self.handler_exc = type(e).__name__
      sim.event('exc_in_handler', '_thread_exception', type(e).__name__)
      raise
    sim.event('handler_exception_end')
    return True

  def _thread_finished(self):
    sim = self.sim
    sim.event('handler_finished_start')
    try:
      x = 0
      for i in range(self.script.get('hn', 4)):
        x += i
      if self.script.get('hsleep'):
        core.sim_sleep(self.script['hsleep'])
    except BaseException as e:  # pylint: disable=broad-except
      self.handler_exc = type(e).__name__
      sim.event('exc_in_handler', '_thread_finished', type(e).__name__)
      raise
    sim.event('handler_finished_end')


def killer(sim, victim, gate, kid, delay):
  gate.wait()
  if delay:
    core.sim_sleep(delay)
  sim.event('kill_call', kid)
  try:
    victim.kill()
    sim.event('kill_ret', kid)
  except BaseException as e:  # pylint: disable=broad-except
    sim.event('kill_raised', kid, type(e).__name__, str(e)[:60])


def bystander(sim, n):
  """An unrelated thread: a kill must never surface here."""
  try:
    x = 0
    for i in range(n):
      x += i
      if i % 7 == 0:
        core.sim_sleep(0.01)
    sim.event('bystander_done')
  except BaseException as e:  # pylint: disable=broad-except
    sim.event('bystander_exc', type(e).__name__)
    raise
