"""W-iso: phases shared between tests / runs (C11).  Traced."""
import openhtf as htf
from openhtf.core import base_plugs
from wx.meta import NameHashMeta
from workloads import bodies


from openhtf.util import validators as _validators


class SeenValidator(_validators.ValidatorBase):
  """A stateful validator: remembers what it was asked to judge (its text shows how much)."""

  def __init__(self):
    self.seen = []

  def __call__(self, value):
    self.seen.append(value)
    return True

  def __str__(self):
    return 'Seen(%d values)' % len(self.seen)


class IsoPlug(base_plugs.BasePlug, metaclass=NameHashMeta):
  COUNTER = [0]

  def __init__(self):
    IsoPlug.COUNTER[0] += 1
    self.serial = IsoPlug.COUNTER[0]
    self.owner = None

  def claim(self, who):
    if self.owner is None:
      self.owner = who
    return self.owner


def make_shared_nodes(sim, nphases, with_plug, with_args, run_of):
  """Phase descriptors meant to be handed to several Test objects."""
  diag = IsoDiag(sim, run_of)
  nodes = []
  for k in range(nphases):
    def body(test, scale=1, _k=k, **kw):
      who = test.test_record.metadata['test_name']
      store_empty = tuple(r.name for r in bodies.RESULTS[2:] if test.diagnoses_store.has_diagnosis_result(r))
      m = test.measurements
      before = None
      try:
        before = m['val%d' % _k]
        pre = 'SET'
      except Exception:  # pylint: disable=broad-except
        pre = 'UNSET'
      plug_owner = None
      if 'gadget' in kw:
        plug_owner = kw['gadget'].claim(who)
      sim.event('iso_body', who, _k, len(test.state), pre, store_empty, plug_owner, scale, run_of.get(who[-1], 0))
      test.state['k%d' % _k] = who
      val = (1 if who.endswith('A') else 2) * 10 + _k
      m['val%d' % _k] = val
      m['cond%d' % _k] = 7
      test.attach('att_%s_%d' % (who, _k), who.encode())
      test.logger.info('isolog %s phase%d', who, _k)
    body.__name__ = 'iso%d' % k
    ph = htf.measures(htf.Measurement('val%d' % k).in_range(0, 100).with_validator(SeenValidator()),
                      htf.Measurement('cond%d' % k).validate_on({bodies.R.R2: htf.core.measurements.validators.in_range(0, 5)}))(body)
    ph = htf.diagnose(diag)(ph)
    if with_plug:
      ph = htf.plug(gadget=IsoPlug)(ph)
    if with_args and k % 2 == 0:
      ph = ph.with_args(scale=3)
    nodes.append(ph)
  return nodes


class IsoDiag(htf.core.diagnoses_lib.BasePhaseDiagnoser):
  __slots__ = ('sim', 'run_of')

  def __init__(self, sim, run_of):
    super(IsoDiag, self).__init__(bodies.R, name='isodiag')
    self.sim = sim
    self.run_of = run_of

  def run(self, phase_record):
    vals = [mm.measured_value.value for n, mm in sorted(phase_record.measurements.items())
            if n.startswith('val') and mm.measured_value.is_value_set]
    # tests named ...A produce R2 in their first run and R4 afterwards, tests named ...B produce R3
    if vals and vals[0] < 20:
      if self.run_of.get('A', 0) == 0:
        return htf.Diagnosis(bodies.R.R2, 'from A')
      return htf.Diagnosis(bodies.R.R4, 'from A again')
    return htf.Diagnosis(bodies.R.R3, 'from B')


def run_test(sim, test, out, key, reps, run_of):
  out[key] = []
  for r in range(reps):
    run_of[key] = r
    try:
      out[key].append(test.execute())
    except BaseException as e:  # pylint: disable=broad-except
      out[key].append('EXC:%s:%s' % (type(e).__name__, str(e)[:80]))
      sim.event('iso_exec_exc', key, type(e).__name__)
      break
