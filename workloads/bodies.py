"""Runtime side of W-exec: phase bodies, plugs, diagnosers, callbacks, operator.

Everything here is traced (pre-emption points) and logs to the simulator's
event log.  Behaviour comes from the program spec (wx.gen); nothing is random.
"""
import threading

import openhtf as htf
from openhtf.core import base_plugs
from openhtf.core import diagnoses_lib
from openhtf.util import threads as htf_threads
from simkit import core
from workloads import logshapes


class R(htf.DiagResultEnum):
  R0 = 'r0'
  R1 = 'r1'
  R2 = 'r2'
  R3 = 'r3'
  R4 = 'r4'
  R5 = 'r5'


RESULTS = [R.R0, R.R1, R.R2, R.R3, R.R4, R.R5]


class FailExc(Exception):
  """Listed in failure_exceptions when the spec says so."""


class OtherExc(Exception):
  pass


EXCS = {'ValueError': ValueError, 'FailExc': FailExc, 'OtherExc': OtherExc,
        'KeyError': KeyError,
        # not an Exception subclass (a body calling sys.exit()): the phase thread just ends
        'SystemExit': SystemExit}

PHASE_RESULTS = {
    'CONTINUE': htf.PhaseResult.CONTINUE,
    'FAIL_AND_CONTINUE': htf.PhaseResult.FAIL_AND_CONTINUE,
    'FAIL_SUBTEST': htf.PhaseResult.FAIL_SUBTEST,
    'SKIP': htf.PhaseResult.SKIP,
    'REPEAT': htf.PhaseResult.REPEAT,
    'STOP': htf.PhaseResult.STOP,
    'NONE': None,
}

JUNK = {'int': 42, 'str': 'CONTINUE', 'false': False, 'zero': 0, 'empty': '', 'list': []}


class Ctx(object):
  """Per-run context shared by all bodies of one generated test."""

  def __init__(self, sim, tag=''):
    self.sim = sim
    self.tag = tag
    self.inv = {}         # phase name -> invocation count
    self.runif = {}       # phase name -> evaluation count
    self.diag_calls = {}  # diagnoser name -> call count
    self.plug_serial = 0
    self.plug_cfg = {}    # plug class name -> cfg dict
    self.specs = {}       # phase name -> phase spec
    self.diag_specs = {}
    self.handshake = None
    self.user_state_seen = []
    self.on_update = None   # harness hook called after a body changed something observable
    self.mon_serials = {}   # id(monitor thread) -> serial
    self.mon_keep = []      # (keeps the thread objects alive so that ids are not reused)
    self.mon_count = 0
    self.mon_taken = {}     # monitor serial -> samples returned so far
    self.dut_percent = False
    self.dim_meas = set()   # names of dimensioned measurements
    self.shared_fn = None

  def ev(self, kind, *args):
    return self.sim.event(self.tag + kind, *args)


CURRENT = {}  # tag -> Ctx (plug classes are module level and need a way in)


def _beh(spec, inv):
  b = spec['beh']
  return b[min(inv - 1, len(b) - 1)]


def make_body(ctx, spec):
  """A phase function for one phase spec."""
  name = spec['name']
  ctx.specs[name] = spec
  for m in spec.get('meas', ()):
    if m.get('dim'):
      ctx.dim_meas.add(m['name'])

  def body(test, **plugs):
    return run_body(ctx, name, test, plugs)

  if spec.get('bare'):
    def body(**plugs):  # pylint: disable=function-redefined
      return run_body(ctx, name, None, plugs)

  body.__name__ = name
  body.__qualname__ = name
  return body


def make_shared_body(ctx):
  """ONE function object used by several phases of a test (each phase binds its own options,
  measurements and plugs to it); which phase is running is read from the phase logger's name."""

  def shared_body(test, **plugs):
    name = test.logger.name.rsplit('.phase.', 1)[1]
    return run_body(ctx, name, test, plugs)

  return shared_body


def make_monitor(ctx, name):
  """The function a monitor thread polls: the value identifies the monitor thread."""

  def monitor(test):
    me = threading.current_thread()
    serial = ctx.mon_serials.get(id(me))
    if serial is None:
      ctx.mon_count += 1
      serial = ctx.mon_serials[id(me)] = ctx.mon_count
      ctx.mon_keep.append(me)
    ctx.ev('monitor_sample', name, serial)
    if ctx.on_update is not None:
      # the samples this thread took before this one have been assigned (and must have been notified)
      ctx.on_update('mon', name, 'mon_' + name, ctx.mon_taken.get(serial, 0))
    ctx.mon_taken[serial] = ctx.mon_taken.get(serial, 0) + 1
    block = (ctx.specs.get(name, {}).get('monitor') or {}).get('block_s')
    if block and ctx.mon_taken[serial] >= 2:
      core.sim_sleep(block)
    return serial

  monitor.__name__ = 'monitor_' + name
  return monitor


def run_body(ctx, name, test, plugs):
  spec = ctx.specs[name]
  inv = ctx.inv[name] = ctx.inv.get(name, 0) + 1
  beh = _beh(spec, inv)
  ctx.ev('body_start', name, inv)
  try:
    if spec.get('monitor'):
      # give the monitor thread its first sample (time does not advance while it is runnable)
      core.sim_sleep(0.001)
    if plugs or spec['plugs']:
      ctx.ev('plug_args', name, tuple((a, getattr(type(plugs[a]), 'LABEL', type(plugs[a]).__name__), getattr(plugs[a], 'serial', -1))
                                      for a in sorted(plugs)))
    if inv == 1 and spec.get('first') and test is not None:
      ctx.ev('fresh_state', name, len(test.state), sorted(str(k) for k in test.state))
    if test is not None:
      test.state['seen_' + name] = inv
    if ctx.on_update is not None:
      ctx.on_update('phase', name, None, None)
    for mname, val in beh.get('meas', []):
      if ctx.on_update is not None:
        ctx.sim.hot('measurement')   # a pre-emption inside the assignment / notification path
      if mname in ctx.dim_meas:
        # assigned twice: the second assignment overrides the coordinate
        test.measurements[mname][inv] = 'first'
        if ctx.on_update is not None:
          ctx.sim.hot('measurement')
        test.measurements[mname][inv] = val
        if ctx.on_update is not None:
          # (a concurrent reader may have rebuilt the rendering cache between the override's
          # invalidation and its store - the open C10 finding; then the rendering is stale for every
          # reader, notified or not, and C18 has nothing to say)
          cache = test.measurements[mname]._cached_basetype_values
          stale = cache is not None and [inv, val] not in [list(x) for x in cache]
          ctx.on_update('dimmeas', name, mname, (inv, val, stale))
        continue
      test.measurements[mname] = val
      if ctx.on_update is not None:
        ctx.on_update('meas', name, mname, val)
    for i in range(beh.get('logs', 0)):
      test.logger.info('%slog %s inv%d #%d', ctx.tag, name, inv, i)
      if ctx.on_update is not None:
        ctx.on_update('log', name, '%slog %s inv%d #%d' % (ctx.tag, name, inv, i), None)
    for i, shape in enumerate(beh.get('xlogs', ())):
      logshapes.emit(test.logger, shape, inv * 10 + i)
    for i in range(beh.get('attach', 0)):
      test.attach('att_%s_%d_%d' % (name, inv, i), ('data-%s-%d' % (name, i)).encode())
    if beh.get('dut'):
      test.dut_id = ('SN%%2F_%s 100%%' if ctx.dut_percent else 'dut_%s') % name
    dur = beh.get('dur', 0)
    hang = beh.get('hang')
    if hang == 'k':
      # killable hang: polls, so an async kill lands promptly
      while True:
        core.sim_sleep(0.05)
    elif hang == 'u':
      # unkillable: swallows the kill and keeps going for `dur` more seconds
      left = dur or 30.0
      while left > 0:
        try:
          core.sim_sleep(0.5)
        except htf_threads.ThreadTerminationError:
          ctx.ev('body_swallowed_kill', name, inv)
        left -= 0.5
      late = beh.get('late')
      if late:
        ctx.ev('late_action', name, inv)
        try:
          test.attach('late_%s_%d' % (name, inv), b'late')
        except Exception as e:  # pylint: disable=broad-except
          ctx.ev('late_attach_exc', name, type(e).__name__)
        try:
          test.logger.info('%slate log %s inv%d', ctx.tag, name, inv)
        except Exception as e:  # pylint: disable=broad-except
          ctx.ev('late_log_exc', name, type(e).__name__)
        for mname, val in beh.get('late_meas', []):
          try:
            test.measurements[mname] = val
          except Exception as e:  # pylint: disable=broad-except
            ctx.ev('late_meas_exc', name, type(e).__name__)
    elif dur:
      slices = beh.get('slices', 1)
      for _ in range(slices):
        core.sim_sleep(dur / float(slices))
    kind = beh['kind']
    if kind == 'raise':
      ctx.ev('body_end', name, inv, 'raise:' + beh['exc'])
      raise EXCS[beh['exc']]('scripted %s inv%d' % (name, inv))
    if kind == 'junk':
      ctx.ev('body_end', name, inv, 'junk:' + beh['val'])
      return JUNK[beh['val']]
    ctx.ev('body_end', name, inv, 'ret:' + beh['val'])
    return PHASE_RESULTS[beh['val']]
  except BaseException as e:  # pylint: disable=broad-except
    if not isinstance(e, tuple(EXCS.values())):
      ctx.ev('body_exc', name, inv, type(e).__name__)
    raise


def make_run_if(ctx, spec):
  name = spec['name']
  script = spec['opts']['run_if']

  def run_if():
    n = ctx.runif[name] = ctx.runif.get(name, 0) + 1
    v = script[min(n - 1, len(script) - 1)]
    ctx.ev('run_if', name, n, str(v))
    if v == 'raise':
      raise OtherExc('run_if of %s' % name)
    return v

  return run_if


class ScriptedPhaseDiagnoser(diagnoses_lib.BasePhaseDiagnoser):
  """Phase diagnoser whose results come from the spec."""

  __slots__ = ('ctx', 'spec')

  def __init__(self, ctx, spec):
    super(ScriptedPhaseDiagnoser, self).__init__(R, name=spec['name'],
                                                 always_fail=spec.get('always_fail', False))
    self.ctx = ctx
    self.spec = spec

  def run(self, phase_record):
    n = self.ctx.diag_calls[self.spec['name']] = self.ctx.diag_calls.get(self.spec['name'], 0) + 1
    outs = self.spec['outs']
    out = outs[min(n - 1, len(outs) - 1)]
    self.ctx.ev('diag', self.spec['name'], phase_record.name, n)
    if out == 'raise':
      raise OtherExc('diagnoser %s' % self.spec['name'])
    internal = bool(self.spec.get('internal'))
    return [htf.Diagnosis(RESULTS[r], 'scripted', is_failure=bool(f), is_internal=internal and not f) for (r, f) in out]


class ScriptedTestDiagnoser(diagnoses_lib.BaseTestDiagnoser):

  __slots__ = ('ctx', 'spec')

  def __init__(self, ctx, spec):
    super(ScriptedTestDiagnoser, self).__init__(R, name=spec['name'],
                                                always_fail=spec.get('always_fail', False))
    self.ctx = ctx
    self.spec = spec

  def run(self, test_rec, store):
    self.ctx.ev('test_diag', self.spec['name'], len(test_rec.phases))
    out = self.spec['outs']
    if out == 'raise':
      raise OtherExc('test diagnoser %s' % self.spec['name'])
    return [htf.Diagnosis(RESULTS[r], 'scripted', is_failure=bool(f)) for (r, f) in out]


from wx.meta import NameHashMeta as _NameHashMeta  # untraced: hashing must not cost line steps


class _ScriptedPlug(base_plugs.BasePlug, metaclass=_NameHashMeta):
  TAG = ''
  LABEL = '?'

  def __init__(self):
    ctx = CURRENT[self.TAG]
    cfg = ctx.plug_cfg.get(type(self).LABEL, {})
    ctx.plug_serial += 1
    self.serial = ctx.plug_serial
    self.ctx = ctx
    ctx.ev('plug_ctor', type(self).LABEL, self.serial)
    self.logger.info('%sctor log %s', ctx.tag, type(self).LABEL)
    if cfg.get('ctor') == 'raise':
      ctx.ev('plug_ctor_raise', type(self).LABEL, self.serial)
      raise OtherExc('ctor of %s' % type(self).LABEL)

  def tearDown(self):
    ctx = self.ctx
    cfg = ctx.plug_cfg.get(type(self).LABEL, {})
    ctx.ev('plug_td_start', type(self).LABEL, self.serial)
    if cfg.get('td_log'):
      self.logger.info('%std log %s', ctx.tag, type(self).LABEL)
    td = cfg.get('teardown', 'ok')
    if td == 'raise':
      ctx.ev('plug_td_raise', type(self).LABEL, self.serial)
      raise OtherExc('tearDown of %s' % type(self).LABEL)
    if td == 'raise_base':
      # e.g. a tearDown that calls sys.exit(), or is cancelled: not an Exception subclass
      ctx.ev('plug_td_raise', type(self).LABEL, self.serial)
      raise SystemExit('tearDown of %s' % type(self).LABEL)
    if td == 'slow':
      core.sim_sleep(cfg.get('td_dur', 0.3))
    if td == 'hang':
      while True:
        core.sim_sleep(0.25)
    if td == 'hang_u':
      left = 20.0
      while left > 0:
        try:
          core.sim_sleep(0.5)
        except htf_threads.ThreadTerminationError:
          pass
        left -= 0.5
    ctx.ev('plug_td_end', type(self).LABEL, self.serial)


class P0(_ScriptedPlug):
  LABEL = 'P0'


class P1(_ScriptedPlug):
  LABEL = 'P1'


class P2(_ScriptedPlug):
  LABEL = 'P2'


class Q0(_ScriptedPlug):
  TAG = 'B:'
  LABEL = 'Q0'


class Q1(_ScriptedPlug):
  TAG = 'B:'
  LABEL = 'Q1'


def _same_named_class():
  """A distinct plug class with the same module and __name__ as P0 (classes made by a factory)."""
  return _NameHashMeta('P0', (_ScriptedPlug,), {'LABEL': 'P0dup', '__module__': P0.__module__, '__qualname__': 'P0'})


P0DUP = _same_named_class()
PLUGS = {'': [P0, P1, P2, P0DUP], 'B:': [Q0, Q1, Q1]}


def make_callback(ctx, idx, kind, sink):
  def callback(record):
    ctx.ev('callback', idx, str(record.outcome.name if record.outcome else None))
    sink.append((idx, record))
    if kind == 'raise':
      raise OtherExc('callback %d' % idx)

  callback.__name__ = 'callback%d' % idx
  return callback


def operator(ctx, test, gate, n_aborts, gap_s):
  """Operator thread: waits for its trigger, then aborts (once or twice)."""
  gate.wait()
  for i in range(n_aborts):
    if i:
      core.sim_sleep(gap_s)
    ctx.ev('abort_call', i)
    ctx.sim.hot('abort')
    test.abort_from_sig_int()
    ctx.ev('abort_ret', i)


def watcher(ctx, test, wid, out):
  """Station-server stand-in: snapshot, stop at COMPLETED, else wait."""
  while True:
    st = test.state
    if st is None:
      if out.get('execute_done'):
        ctx.ev('watcher_no_state', wid)
        return
      core.sim_sleep(0)
      continue
    try:
      snap, ev = st.asdict_with_event()
    except RuntimeError as e:
      # "dictionary changed size during iteration": the station server retries
      ctx.ev('watcher_retry', wid, type(e).__name__)
      core.sim_sleep(0)
      continue
    status = snap['status']
    rec = snap['test_record']
    ctx.ev('watch', wid, status, len(rec['phases']), len(rec['log_records']))
    out.setdefault('snaps', []).append((wid, status, len(rec['phases']), len(rec['log_records'])))
    if status == 'COMPLETED':
      ctx.ev('watcher_done', wid)
      return
    ev.wait()


import logging as _logging


class SlowHandler(_logging.Handler):
  """A user log handler that takes virtual time per record (e.g. a remote log sink)."""

  def __init__(self, delay):
    super(SlowHandler, self).__init__()
    self.delay = delay

  def emit(self, record):
    if record.levelno >= _logging.INFO:
      core.sim_sleep(self.delay)


def overlapper(ctx, test, gate, start):
  """A second thread calling execute() on a Test that may be running."""
  gate.wait()
  if getattr(ctx, 'overlap_cancel', False):
    return
  ctx.ev('overlap_call')
  try:
    ret = test.execute(test_start=start)
    ctx.ev('overlap_ret', ret)
  except BaseException as e:  # pylint: disable=broad-except
    ctx.ev('overlap_exc', type(e).__name__)
