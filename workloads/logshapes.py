"""W-log: message / argument shapes and the outsider logging thread (C19).  Traced."""
import logging

from openhtf.util import logs
from simkit import core

MACS = ['f8:8f:ca:12:34:56', '00:1A:2B:3C:4D:5E', 'aB:cD:eF:01:23:45', 'de:ad:be:ef:00:01']

N_SHAPES = 15


class MacHolder(object):
  """A non-string argument whose text contains a MAC address."""

  def __init__(self, mac):
    self.mac = mac

  def __str__(self):
    return 'Device<%s>' % self.mac


class MsgObj(object):
  """A non-string log message object."""

  def __init__(self, mac):
    self.mac = mac

  def __str__(self):
    return 'status of %s: ok' % self.mac


def emit(logger, shape, n):
  """Logs one message of the given shape; n makes the text unique."""
  mac = MACS[n % len(MACS)]
  mac2 = MACS[(n + 1) % len(MACS)]
  if shape == 0:
    logger.info('xlog plain %d', n)
  elif shape == 1:
    logger.info('xlog %d mac in template f8:8f:ca:aa:bb:cc end' % n)
  elif shape == 2:
    logger.warning('xlog %d mac str arg %s', n, mac)
  elif shape == 3:
    logger.info('xlog %d mac in list arg %s', n, [mac])
  elif shape == 4:
    logger.info('xlog %d mac in object arg %s', n, MacHolder(mac))
  elif shape == 5:
    logger.info('xlog %(n)d %(who)s has %(mac)s', {'n': n, 'who': 'dut', 'mac': mac})
  elif shape == 6:
    logger.error(MsgObj(mac))
  elif shape == 7:
    logger.info('xlog %d two macs %s and %s', n, mac, mac2)
  elif shape == 8:
    logger.info('xlog %d upper %s', n, mac.upper())
  elif shape == 9:
    logger.debug('xlog %d percent literal 100%% mac %s', n, mac)
  elif shape == 10:
    logger.info('xlog %d mac %s count %d ratio %.1f', n, mac, 3, 0.5)
  elif shape == 11:
    logger.info('xlog %d tuple arg %s', n, (mac, 1))
  elif shape == 12:
    logger.info('xlog %d no mac but colons 12:30 and aa:bb', n)
  elif shape == 13:
    logger.critical('xlog %d [%s]', n, mac.lower())
  elif shape == 14:
    import warnings
    with warnings.catch_warnings():
      warnings.simplefilter('ignore')
      logger.warn('xlog %d via the deprecated warn() %s', n, mac)
  else:
    raise AssertionError(shape)


def outsider(sim, plan, live, done):
  """A thread outside any test: framework messages and record loggers of (un)known uids."""
  fw = logging.getLogger('openhtf.ext.station')
  n = 1000
  for (kind, shape, pause) in plan:
    if done.get('stop'):
      return
    if pause:
      core.sim_sleep(pause)
    n += 1
    uids = sorted(live)
    if kind == 'framework' or not uids:
      emit(fw, shape, n)
      continue
    uid = uids[n % len(uids)]
    if kind == 'own':
      emit(logs.get_record_logger_for(uid), shape, n)
    elif kind == 'own_child':
      emit(logs.get_record_logger_for(uid).getChild('plug').getChild('Helper'), shape, n)
    elif kind == 'prefix':
      emit(logs.get_record_logger_for(uid[:-1]), shape, n)
    elif kind == 'longer':
      emit(logs.get_record_logger_for(uid + '0'), shape, n)
    elif kind == 'bogus':
      emit(logs.get_record_logger_for('no-such-test'), shape, n)
    elif kind == 'stdlib_child':
      # a hierarchical stdlib logger under another (unknown) test's name
      emit(logging.getLogger(logs.RECORD_LOGGER_PREFIX + '.ghost.phase.x'), shape, n)
    elif kind == 'bare_prefix':
      emit(logging.getLogger(logs.RECORD_LOGGER_PREFIX), shape, n)
    else:
      raise AssertionError(kind)


def c20_noop_phase(test):
  """The one phase of the Test that C20 executes to look at the config snapshot in its record."""
  test.logger.debug('c20 snapshot run')
