"""W-sub: micro-scenarios around SubscribableStateMixin (C18).

Everything in this file is traced line by line (pre-emption points).
"""
import threading

from openhtf import util
from openhtf.core import base_plugs
from simkit import core


class Subject(util.SubscribableStateMixin):
  """Two independent counters, one per updater."""

  def __init__(self, sim):
    super(Subject, self).__init__()
    self.sim = sim
    self.vals = [0, 0]

  def _asdict(self):
    snap = {'a': self.vals[0], 'b': self.vals[1]}
    self.sim.event('state_read', snap['a'], snap['b'])
    return snap


class PlugSubject(base_plugs.FrontendAwareBasePlug):
  """The same subject built on the frontend-aware plug base class."""

  def __init__(self, sim):
    super(PlugSubject, self).__init__()
    self.sim = sim
    self.vals = [0, 0]

  def _asdict(self):
    snap = {'a': self.vals[0], 'b': self.vals[1]}
    self.sim.event('state_read', snap['a'], snap['b'])
    return snap


def updater(sim, subj, slot, count, pause):
  for _ in range(count):
    if pause:
      core.sim_sleep(pause)
    subj.vals[slot] += 1
    sim.event('notify_begin', slot, subj.vals[slot])
    subj.notify_update()
    sim.event('notify_end', slot, subj.vals[slot])


def watcher(sim, subj, wid, final, pairs):
  while True:
    snap, ev = subj.asdict_with_event()
    seq = sim.event('pair', wid, snap['a'], snap['b'])
    pairs.append((wid, seq, snap, ev))
    if (snap['a'], snap['b']) == final:
      sim.event('watcher_done', wid)
      return
    ev.wait()


def wait_for_plug_update_watcher(sim, manager, name, wid, final, out):
  """Watcher using the PlugManager.wait_for_plug_update API (station server)."""
  state = None
  while True:
    new = manager.wait_for_plug_update(name, state, 1000.0)
    if new is None:
      sim.event('plug_wait_timeout', wid)
      out.append(('timeout', wid))
      return
    state = new
    sim.event('plug_state', wid, state['a'], state['b'])
    if (state['a'], state['b']) == final:
      sim.event('watcher_done', wid)
      return
