"""W-sub: micro-scenarios around SubscribableStateMixin (C18).

Everything in this file is traced line by line (pre-emption points).
"""
import threading

from openhtf import util
from openhtf.core import base_plugs
from simkit import core


class Subject(util.SubscribableStateMixin):
  """Two independent counters, one per updater."""

  def __init__(self, sim):
    super(Subject, self).__init__()
    self.sim = sim
    self.vals = [0, 0]

  def _asdict(self):
    snap = {'a': self.vals[0], 'b': self.vals[1]}
    self.sim.event('state_read', snap['a'], snap['b'])
    return snap


class PlugSubject(base_plugs.FrontendAwareBasePlug):
  """The same subject built on the frontend-aware plug base class."""

  def __init__(self, sim):
    super(PlugSubject, self).__init__()
    self.sim = sim
    self.vals = [0, 0]

  def _asdict(self):
    snap = {'a': self.vals[0], 'b': self.vals[1]}
    self.sim.event('state_read', snap['a'], snap['b'])
    return snap


def updater(sim, subj, slot, count, pause):
  for _ in range(count):
    if pause:
      core.sim_sleep(pause)
    subj.vals[slot] += 1
    sim.event('notify_begin', slot, subj.vals[slot])
    subj.notify_update()
    sim.event('notify_end', slot, subj.vals[slot])


def watcher(sim, subj, wid, final, pairs):
  while True:
    snap, ev = subj.asdict_with_event()
    seq = sim.event('pair', wid, snap['a'], snap['b'])
    pairs.append((wid, seq, snap, ev))
    if (snap['a'], snap['b']) == final:
      sim.event('watcher_done', wid)
      return
    ev.wait()


def wait_for_plug_update_watcher(sim, manager, name, wid, final, out):
  """Watcher using the PlugManager.wait_for_plug_update API (station server)."""
  state = None
  while True:
    new = manager.wait_for_plug_update(name, state, 1000.0)
    if new is None:
      sim.event('plug_wait_timeout', wid)
      out.append(('timeout', wid))
      return
    state = new
    sim.event('plug_state', wid, state['a'], state['b'])
    if (state['a'], state['b']) == final:
      sim.event('watcher_done', wid)
      return


# ------------------------------------------------------------ UserInput scenario
def ui_prompter(sim, plug, n, out):
  """The phase side: asks n questions, each must be answered."""
  from openhtf.plugs import user_input
  for i in range(n):
    try:
      r = plug.prompt('question %d' % i, text_input=True, timeout_s=50.0)
      sim.event('prompt_answered', i, r)
      out.append(('answered', i, r))
    except user_input.PromptUnansweredError:
      sim.event('prompt_unanswered', i)
      out.append(('unanswered', i))
      return
  out.append(('done',))


def ui_responder(sim, plug, n, out):
  """The station frontend: learns of prompts through (state, event) and answers them."""
  answered = 0
  while answered < n:
    state, ev = plug.asdict_with_event()
    if state is not None:
      sim.event('respond', state['message'])
      plug.respond(state['id'], 'answer to ' + state['message'])
      answered += 1
      continue
    if not ev.wait(200.0):
      sim.event('responder_gave_up')
      out.append(('responder_timeout', answered))
      return
  out.append(('responder_done', answered))


def ui_watcher(sim, plug, wid, done, pairs):
  """A passive frontend: snapshot-then-wait until the scenario is over."""
  while True:
    state, ev = plug.asdict_with_event()
    pairs[wid] = (None if state is None else state['message'], ev)
    sim.event('ui_pair', wid, pairs[wid][0])
    if done.get('over') and state is None:
      return
    ev.wait(300.0)
    if done.get('over') and not ev.is_set():
      # woken by the time-out only: nothing more will come
      return
