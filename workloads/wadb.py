"""W-adb: transport, device peers and host threads for the ADB checks (C13, C14, C15).

Traced line by line.  ADB payloads are str and headers bytes: the stack under test is
Python-2-era and only works that way; the peers follow suit.
"""
import struct
import threading

from openhtf.plugs.usb import adb_message
from openhtf.plugs.usb import usb_exceptions
from simkit import core

import libusb1  # the import-only stub registered by simkit.env

HDR = '<6I'
CMDS = ['SYNC', 'CNXN', 'AUTH', 'OPEN', 'OKAY', 'CLSE', 'WRTE']


def wire(cmd):
  return adb_message.AdbMessage.CMD_TO_WIRE[cmd]


def checksum(data):
  return sum(ord(c) for c in data) & 0xFFFFFFFF


def header(cmd, a0, a1, data, length=None, cksum=None, magic=None, wirecmd=None):
  w = wire(cmd) if wirecmd is None else wirecmd
  return struct.pack(HDR, w, a0, a1, len(data) if length is None else length,
                     checksum(data) if cksum is None else cksum,
                     (w ^ 0xFFFFFFFF) if magic is None else magic)


class Pipe(object):
  """One direction of the link: a queue of chunks with blocking, timed reads."""

  def __init__(self):
    self.chunks = []
    self.cond = threading.Condition()
    self.closed = False

  def put(self, c):
    with self.cond:
      self.chunks.append(c)
      self.cond.notify_all()

  def get(self, timeout_s):
    with self.cond:
      if not self.chunks and not self.closed:
        self.cond.wait(timeout_s)
      if not self.chunks:
        return None
      return self.chunks.pop(0)


class FakeTransport(object):
  """What AdbConnection.connect() takes: read / write / close."""

  def __init__(self, sim, write_delay=0.0, delay_every=0):
    self.sim = sim
    self.h2d = Pipe()
    self.d2h = Pipe()
    self.closed = False
    self.write_delay = write_delay
    self.delay_every = delay_every
    self.nwrites = 0
    self.wlog = []   # (seq, thread sid, chunk)
    self.late_armed = {}   # thread sid -> [header reads until the late one, fired in this call]
    self.late_fired = 0

  def write(self, data, timeout_ms=None):
    self.nwrites += 1
    if self.write_delay and (not self.delay_every or self.nwrites % self.delay_every == 0):
      # a slow link: the transfer completes, but takes time
      core.sim_sleep(self.write_delay)
    seq = self.sim.event('h2d', len(data))
    me = core.cur()
    self.wlog.append((seq, me.sid if me else -1, data))
    self.h2d.put(data)
    return len(data)

  def read(self, length, timeout_ms=None):
    t0 = self.sim.now
    c = self.d2h.get(None if timeout_ms is None else timeout_ms / 1000.0)
    if c is None:
      raise usb_exceptions.UsbReadFailedError(libusb1.USBError(libusb1.LIBUSB_ERROR_TIMEOUT), 'read timed out')
    me = core.cur()
    arm = self.late_armed.get(me.sid if me else -1)
    if arm is not None and length == 24 and timeout_ms:
      if arm[0] == 0:
        # fault: the transfer completes, but only at the very end of the caller's timeout window
        left = t0 + timeout_ms / 1000.0 - self.sim.now
        core.sim_sleep(max(left, 0.0) + 0.0005)
        arm[1] += 1
        self.late_fired += 1
        self.sim.event('late_transfer', me.sid if me else -1)
      arm[0] -= 1
    return c

  def close(self):
    self.closed = True


# ------------------------------------------------------------------ C13 bodies
def frame_writer(sim, adapter, wid, msgs, timeout_ms, errs):
  from openhtf.util import timeouts
  for i, (cmd, a0, a1, data) in enumerate(msgs):
    try:
      adapter.write_message(adb_message.AdbMessage(cmd, a0, a1, data),
                            timeouts.PolledTimeout.from_millis(timeout_ms))
      sim.event('wrote', wid, i)
    except BaseException as e:  # pylint: disable=broad-except
      errs.append((wid, i, type(e).__name__))
      sim.event('write_exc', wid, i, type(e).__name__)


def frame_reader(sim, adapter, rid, n, timeout_ms, got):
  from openhtf.util import timeouts
  for i in range(n):
    try:
      m = adapter.read_message(timeouts.PolledTimeout.from_millis(timeout_ms))
      got.append((rid, 'msg', m.command, m.arg0, m.arg1, m.data))
      sim.event('read_msg', rid, m.command, len(m.data))
    except BaseException as e:  # pylint: disable=broad-except
      got.append((rid, 'exc', type(e).__name__, str(e)[:80]))
      sim.event('read_exc', rid, type(e).__name__)
      if isinstance(e, usb_exceptions.UsbReadFailedError):
        return


# ------------------------------------------------------------------ device peer
class Device(object):
  """A scripted adbd: one simulated thread.  Audits everything it receives."""

  def __init__(self, sim, tape, tr, cfg):
    self.sim = sim
    self.tape = tape
    self.tr = tr
    self.cfg = cfg
    self.maxdata = cfg.get('maxdata', 64)
    self.streams = {}    # remote id -> dict(local, svc, out, awaiting_ack, host_wrte_pending, closed)
    self.next_remote = 100
    self.violations = []
    self.received = []   # every message (cmd, a0, a1, data)
    self.host_written = {}  # remote id -> [data chunks the host wrote]
    self.done = False
    self.stats = {}

  def send(self, cmd, a0, a1, data=''):
    self.sim.event('d2h', cmd, a0, a1, len(data))
    self.tr.d2h.put(header(cmd, a0, a1, data))
    if data:
      self.tr.d2h.put(data)

  def recv(self, timeout_s):
    h = self.tr.h2d.get(timeout_s)
    if h is None:
      return None
    if not isinstance(h, bytes) or len(h) != 24:
      self.violations.append(('bad_header_chunk', repr(h)[:40]))
      return ('BAD', 0, 0, '')
    cmd, a0, a1, ln, ck, mg = struct.unpack(HDR, h)
    data = self.tr.h2d.get(5.0)
    if data is None:
      self.violations.append(('header_without_payload', cmd))
      data = ''
    if len(data) != ln or checksum(data) != ck or mg != (cmd ^ 0xFFFFFFFF):
      self.violations.append(('host_frame_inconsistent', cmd, ln, len(data)))
    name = adb_message.AdbMessage.WIRE_TO_CMD.get(cmd, 'BAD')
    self.received.append((name, a0, a1, data))
    return (name, a0, a1, data)

  def count(self, k):
    self.stats[k] = self.stats.get(k, 0) + 1

  def run_streams(self):
    """Session loop after the handshake: serves OPEN / WRTE / OKAY / CLSE."""
    cfg = self.cfg
    scripts = cfg['scripts']          # service -> list of chunks the device writes
    idle = 0
    while not self.done:
      m = self.recv(0.02)
      if m is not None:
        idle = 0
        cmd, a0, a1, data = m
        if cmd == 'OPEN':
          svc = data.rstrip('\0')
          if svc in cfg.get('refuse', ()):
            self.send('CLSE', 0, a0)
            self.count('open_refused')
          else:
            self.next_remote += 1
            rid = self.next_remote
            self.streams[rid] = {'local': a0, 'svc': svc, 'out': list(scripts.get(svc, [])),
                                 'awaiting_ack': False, 'pending_host_wrte': 0, 'closed': False,
                                 'acks': 0, 'sent': 0, 'close_after': cfg.get('close_after', {}).get(svc),
                                 'want_host_data': cfg.get('expect_host_writes', {}).get(svc, 0)}
            self.host_written[rid] = []
            self.send('OKAY', rid, a0)
        elif cmd == 'OKAY':
          st = self.streams.get(a1)
          if st is None or st['local'] != a0:
            self.violations.append(('okay_with_wrong_ids', a0, a1))
          elif not st['awaiting_ack']:
            self.violations.append(('okay_without_outstanding_wrte', a0, a1))
          else:
            st['awaiting_ack'] = False
            st['acks'] += 1
        elif cmd == 'WRTE':
          st = self.streams.get(a1)
          if st is None or st['local'] != a0:
            self.violations.append(('wrte_with_wrong_ids', a0, a1))
          else:
            if len(data) > self.maxdata:
              self.violations.append(('host_wrte_exceeds_maxdata', len(data), self.maxdata))
            if st['pending_host_wrte']:
              self.violations.append(('second_host_wrte_before_ack', a0, a1))
            if st['closed']:
              self.count('wrte_on_closed_stream_ignored')
            else:
              st['pending_host_wrte'] += 1
              self.host_written[a1].append(data)
              if st['want_host_data']:
                st['want_host_data'] -= 1
        elif cmd == 'CLSE':
          st = self.streams.get(a1)
          if st is not None:
            st['closed_by_host'] = st.get('closed_by_host', 0) + 1
            if st['closed_by_host'] > 1:
              self.violations.append(('second_clse_for_stream', a0, a1))
            st['closed'] = True
        elif cmd == 'BAD':
          pass
      else:
        idle += 1
      # device-side actions, order chosen by the tape
      acts = []
      for rid in sorted(self.streams):
        st = self.streams[rid]
        if st['pending_host_wrte']:
          acts.append(('ack', rid))
        if st['closed']:
          continue
        if not st['awaiting_ack']:
          if st['out'] and (st['close_after'] is None or st['sent'] < st['close_after']):
            acts.append(('wrte', rid))
          elif not st['pending_host_wrte'] and not st.get('want_host_data'):
            acts.append(('clse', rid))
      if acts:
        idle = 0
        # one or more actions per round
        n = 1 + self.tape.draw(min(len(acts), 3), 'dev_n')
        for _ in range(n):
          if not acts:
            break
          kind, rid = acts.pop(self.tape.draw(len(acts), 'dev_act'))
          st = self.streams[rid]
          if kind == 'ack':
            if self.tape.chance(300, 'dev_delay_ack'):
              acts.append((kind, rid))
              continue
            st['pending_host_wrte'] -= 1
            self.send('OKAY', rid, st['local'])
          elif kind == 'wrte':
            chunk = st['out'].pop(0)
            st['awaiting_ack'] = True
            st['sent'] += 1
            self.send('WRTE', rid, st['local'], chunk)
            inj = cfg.get('inject', {}).get(st['svc'])
            if inj is not None and inj[0] == st['sent'] and not st.get('injected'):
              st['injected'] = True
              self.count('illegal_packet_injected')
              # (payloads with per-cent signs: they end up in error messages)
              self.send(inj[1], 1, 2, 'x 100% %s' if inj[1] == 'OPEN' else ('50%d' if self.tape.chance(500, 'inj_pct') else ''))
          elif kind == 'clse' and not st['closed']:
            st['closed'] = True
            st['closed_by_device'] = True
            self.send('CLSE', rid, st['local'])
          if self.tape.chance(150, 'dev_pause'):
            core.sim_sleep(self.tape.pick([0.001, 0.02, 0.2], 'dev_pause_s'))
      elif idle > cfg.get('idle_rounds', 400):
        return


# ------------------------------------------------------------------ C14 bodies
def timed(sim, calls, what, timeout_ms, fn):
  """Runs one blocking host call, recording its virtual duration and outcome."""
  t0 = sim.now
  try:
    r = fn()
    calls.append((what, timeout_ms, sim.now - t0, 'ok'))
    return r
  except BaseException as e:  # pylint: disable=broad-except
    calls.append((what, timeout_ms, sim.now - t0, type(e).__name__))
    raise


def stream_reader(sim, stream, key, plan, out):
  """Reads a stream until it is closed; everything read goes to out[key]['read']."""
  res = out[key]
  late = plan.get('late')   # (transport, {ordinal of the read call: which of its header reads is late})
  ncall = 0
  me = core.cur()
  try:
    while True:
      arm = None
      if late is not None and ncall in late[1]:
        arm = late[0].late_armed[me.sid] = [late[1][ncall], 0]
      ncall += 1
      try:
        d = timed(sim, res['calls'], 'read', plan['timeout_ms'],
                  lambda: stream.read(plan.get('read_len', 0), plan['timeout_ms']))
      except usb_exceptions.AdbTimeoutError:
        if arm is not None and arm[1]:
          # the packet arrived as the deadline passed: a time-out of this call is legitimate, the data
          # must be there for the next call
          res['calls'][-1] = res['calls'][-1][:3] + ('late_timeout',)
          sim.event('late_timeout', key)
          continue
        raise
      finally:
        if arm is not None:
          late[0].late_armed.pop(me.sid, None)
      if d is None:
        res['end'] = 'none'
        return
      res['read'].append(d)
      sim.event('host_read', key, len(d))
      if plan.get('close_after_reads') and len(res['read']) >= plan['close_after_reads']:
        timed(sim, res['calls'], 'close', 100, lambda: stream.close())
        res['end'] = 'host_closed'
        return
  except usb_exceptions.AdbStreamClosedError:
    res['end'] = 'closed'
  except BaseException as e:  # pylint: disable=broad-except
    res['end'] = 'exc:' + type(e).__name__
    res['exc_msg'] = str(e)[:120]
    sim.event('host_read_exc', key, type(e).__name__)


def stream_writer(sim, stream, key, plan, out):
  res = out[key]
  try:
    for chunk in plan['writes']:
      timed(sim, res['calls'], 'write', plan['timeout_ms'],
            lambda: stream.write(chunk, plan['timeout_ms']))
      res['written'].append(chunk)
      sim.event('host_wrote', key, len(chunk))
    res['wend'] = 'done'
  except BaseException as e:  # pylint: disable=broad-except
    res['wend'] = 'exc:' + type(e).__name__
    res['wexc_msg'] = str(e)[:120]
    sim.event('host_write_exc', key, type(e).__name__)


def streaming_reader(sim, conn, svc, key, plan, out):
  """The streaming_command() helper: open + read until close."""
  res = out[key]
  try:
    service, command = svc.split(':', 1)
    for d in conn.streaming_command(service, command, plan['timeout_ms']):
      res['read'].append(d)
      sim.event('host_read', key, len(d))
    res['end'] = 'closed'
  except BaseException as e:  # pylint: disable=broad-except
    res['end'] = 'exc:' + type(e).__name__
    res['exc_msg'] = str(e)[:120]
    sim.event('host_read_exc', key, type(e).__name__)


def device_thread(dev, handshake):
  try:
    if handshake(dev):
      dev.run_streams()
  except core.SimShutdown:
    raise
  except BaseException as e:  # pylint: disable=broad-except
    dev.violations.append(('device_thread_exception', type(e).__name__, str(e)[:100]))
    raise


def plain_handshake(dev):
  m = dev.recv(30.0)
  if m is None or m[0] != 'CNXN':
    dev.violations.append(('expected_CNXN_first', m and m[0]))
    return False
  dev.send('CNXN', 0x01000000, dev.maxdata, 'device:SER123:banner text')
  return True


# ------------------------------------------------------------------ C15 bodies
class RecordingSigner(object):
  """An AuthSigner that records what it is asked to sign."""

  def __init__(self, sim, k, delay=0.0):
    self.sim = sim
    self.k = k
    self.delay = delay

  def sign(self, data):
    self.sim.event('sign', self.k, data)
    if self.delay:
      core.sim_sleep(self.delay)   # e.g. a hardware token that takes its time
    return 'SIG%d(%s)' % (self.k, data)

  def get_public_key(self):
    self.sim.event('get_public_key', self.k)
    return 'PUB%d' % self.k


def scripted_handshake(batches):
  """Device side of connect(): batch i is sent after the host's i-th message."""

  def run(dev):
    for i, batch in enumerate(batches):
      m = dev.recv(5.0)
      if m is None:
        return False
      dev.sim.event('dev_got', m[0], m[1], m[3][:24])
      for pkt in batch:
        kind = pkt[0]
        if kind == 'raw':
          for chunk in pkt[1]:
            dev.tr.d2h.put(chunk)
          dev.sim.event('d2h_raw', len(pkt[1]))
        else:
          dev.send(pkt[0], pkt[1], pkt[2], pkt[3])
    # keep listening so that late host messages are audited too
    while True:
      m = dev.recv(2.0)
      if m is None:
        return False
      dev.sim.event('dev_got', m[0], m[1], m[3][:24])

  return run


def stream_poller(sim, stream, key, n, pause, out):
  """Non-blocking polls (timeout 0) of a stream on which another thread is writing (C14)."""
  res = out[key]
  for _ in range(n):
    try:
      timed(sim, res['calls'], 'poll', 0, lambda: stream.read(0, 0))
    except usb_exceptions.AdbTimeoutError:
      pass
    except usb_exceptions.AdbStreamClosedError:
      res['end'] = 'closed'
      return
    core.sim_sleep(pause)
  res['end'] = 'polled'


def closer(sim, stream, delay, out):
  """A second host thread closing a stream while the first keeps reading other streams (C15)."""
  core.sim_sleep(delay)
  try:
    stream.close(200)
    out.append('closed')
  except BaseException as e:  # pylint: disable=broad-except
    if isinstance(e, (core.SimAbort, core.SimShutdown)):
      raise
    out.append(type(e).__name__)
